(* C09 proofs, part 2: cells inside NodeRrsets / ZoneNode / the zone; every data
   operation of the writer of version w leaves the rolled-back state unchanged. *)
From Coq Require Import NArith ZArith List Bool Lia ZifyN ZifyBool ZifyNat.
From DV Require Import Base.Outcome C17.Model C09.Gen C09.Model C09.Proofs.
Import ListNotations.
Local Open Scope N_scope.

(* ---------------------------------------------------------------- w-local cell functions *)

(* the cell minus a last entry of version w holds versions <= c only *)
Definition cq {T} (c w : N) (d : list (entry T)) : Prop := le_all c (v_rollback d w).

Lemma cq_nov {T} c w (d : list (entry T)) : c < w -> cq c w d -> nov w (v_rollback d w).
Proof. intros Hc H. eapply Forall_impl; [|exact H]. cbn. intros; lia. Qed.

Lemma shape_of_cinv {T} w (d : list (entry T)) : shape w (v_rollback d w) d.
Proof.
  rewrite v_rollback_eq. destruct d as [|[lv lx] rest]; [left; reflexivity|].
  destruct (N.eqb_spec lv w) as [->|_]; [right; eauto|left; reflexivity].
Qed.

(* f does not touch anything but a last entry of version w *)
Definition wl {T} (w : N) (f : list (entry T) -> list (entry T)) : Prop :=
  forall d, nov w (v_rollback d w) -> v_rollback (f d) w = v_rollback d w.

Lemma wl_cop {T} w (o : cop T) : cop_ver o = w -> wl w (fun d => c_apply d o).
Proof.
  intros Ho d Hd. apply shape_rollback; [exact Hd|].
  apply shape_step; [exact Hd|exact Ho|apply shape_of_cinv].
Qed.
Lemma wl_update {T} w (x : T) : wl w (fun d => v_update d w x).
Proof. exact (wl_cop w (CUpd w x) eq_refl). Qed.
Lemma wl_remove {T} w : @wl T w (fun d => v_remove d w).
Proof. exact (wl_cop w (CRem w) eq_refl). Qed.
Lemma wl_id {T} w : @wl T w (fun d => d).
Proof. intros d _. reflexivity. Qed.

Lemma wl_cq {T} c w (f : list (entry T) -> list (entry T)) d :
  c < w -> wl w f -> cq c w d -> cq c w (f d).
Proof. intros Hc Hf Hd. unfold cq. rewrite (Hf d (cq_nov c w d Hc Hd)). exact Hd. Qed.

Lemma cq_nil {T} c w : @cq T c w [].
Proof. constructor. Qed.

Lemma get_base {T} w (d : list (entry T)) r :
  ver_le w r = false -> v_get (v_rollback d w) r = v_get d r.
Proof. intros Hr. symmetry. apply (shape_get w); [exact Hr|apply shape_of_cinv]. Qed.

Lemma rollback_id {T} c w (d : list (entry T)) : c < w -> le_all c d -> v_rollback d w = d.
Proof.
  intros Hc Hd. rewrite v_rollback_eq. destruct d as [|[lv lx] rest]; [reflexivity|].
  inversion Hd; subst. cbn [fst] in *. destruct (N.eqb_spec lv w); [lia|reflexivity].
Qed.

Lemma cq_of_le {T} c w (d : list (entry T)) : c < w -> le_all c d -> cq c w d.
Proof. intros Hc Hd. unfold cq. now rewrite (rollback_id c w d Hc Hd). Qed.

Lemma le_of_cq {T} c (d : list (entry T)) : cq c (c + 1) d -> le_all (c + 1) d.
Proof.
  unfold cq. rewrite v_rollback_eq. destruct d as [|[lv lx] rest]; [constructor|].
  destruct (N.eqb_spec lv (c + 1)) as [->|_]; intros H.
  - constructor; [cbn; lia|]. eapply le_all_weaken; [|exact H]. lia.
  - eapply le_all_weaken; [|exact H]. lia.
Qed.

Lemma le_rollback {T} c w (d : list (entry T)) : le_all c d -> le_all c (v_rollback d w).
Proof.
  intros H. rewrite v_rollback_eq. destruct d as [|[lv lx] rest]; [constructor|].
  destruct (lv =? w); [now inversion H|exact H].
Qed.

(* ---------------------------------------------------------------- association lists *)

Lemma al_get_upd {A} k k' (f : A -> A) dflt (l : list (N * A)) :
  al_get k' (al_upd k f dflt l) =
  if k' =? k then Some (f (match al_get k l with Some a => a | None => dflt end)) else al_get k' l.
Proof.
  induction l as [|[k0 a] tl IH]; cbn [al_upd al_get].
  - rewrite (N.eqb_sym k k'). destruct (k' =? k); reflexivity.
  - destruct (N.eqb_spec k0 k) as [->|Hne]; cbn [al_get].
    + rewrite (N.eqb_sym k k'). destruct (k' =? k); reflexivity.
    + rewrite IH. destruct (N.eqb_spec k' k) as [->|_].
      * destruct (N.eqb_spec k0 k); [contradiction|reflexivity].
      * reflexivity.
Qed.

Lemma al_get_map {A} k (g : A -> A) (l : list (N * A)) :
  al_get k (al_map g l) = option_map g (al_get k l).
Proof.
  induction l as [|[k0 a] tl IH]; [reflexivity|]. cbn [al_map map al_get fst snd].
  destruct (k0 =? k); [reflexivity|exact IH].
Qed.

Lemma al_map_id {A} (g : A -> A) (l : list (N * A)) :
  (forall p, In p l -> g (snd p) = snd p) -> al_map g l = l.
Proof.
  intros H. unfold al_map. rewrite <- (map_id l) at 2. apply map_ext_in.
  intros [k a] Hin. cbn. f_equal. exact (H (k, a) Hin).
Qed.

Lemma Forall_al_upd {A} (Q : A -> Prop) k f dflt (l : list (N * A)) :
  (forall a, Q a -> Q (f a)) -> Q dflt ->
  Forall (fun p => Q (snd p)) l -> Forall (fun p => Q (snd p)) (al_upd k f dflt l).
Proof.
  intros Hf Hd H. induction H as [|[k0 a] tl Ha Htl IH]; cbn [al_upd].
  - constructor; [cbn; auto|constructor].
  - destruct (k0 =? k); constructor; cbn in *; auto.
Qed.

Lemma Forall_al_map {A} (Q : A -> Prop) g (l : list (N * A)) :
  (forall a, Q a -> Q (g a)) ->
  Forall (fun p => Q (snd p)) l -> Forall (fun p => Q (snd p)) (al_map g l).
Proof.
  intros Hg H. induction H as [|[k0 a] tl Ha _ IH]; cbn; constructor; cbn in *; auto.
Qed.

(* ---------------------------------------------------------------- NodeRrsets *)

Definition rs_q (c w : N) (rs : rrsets) : Prop := Forall (fun p => cq c w (snd p)) rs.

Definition rs_eqv (a b : rrsets) : Prop :=
  (forall t, cell t a = cell t b) /\ (forall nm v, walk_rrsets nm a v = walk_rrsets nm b v).

Lemma rs_eqv_refl a : rs_eqv a a.
Proof. split; reflexivity. Qed.
Lemma rs_eqv_trans a b c : rs_eqv a b -> rs_eqv b c -> rs_eqv a c.
Proof. intros [H1 H2] [H3 H4]. split; intros; [now rewrite H1|now rewrite H2]. Qed.
Lemma rs_eqv_sym a b : rs_eqv a b -> rs_eqv b a.
Proof. intros [H1 H2]. split; intros; [now rewrite H1|now rewrite H2]. Qed.

Lemma cell_upd t t' f (rs : rrsets) :
  cell t' (al_upd t f [] rs) = if t' =? t then f (cell t rs) else cell t' rs.
Proof. unfold cell. rewrite al_get_upd. destruct (t' =? t); reflexivity. Qed.

Lemma cell_map t g (rs : rrsets) : g [] = [] -> cell t (al_map g rs) = g (cell t rs).
Proof. intros Hg. unfold cell. rewrite al_get_map. destruct (al_get t rs); cbn; auto. Qed.

Lemma cell_q c w t rs : rs_q c w rs -> cq c w (cell t rs).
Proof.
  intros H. unfold cell. induction H as [|[k d] tl Hd _ IH]; cbn [al_get]; [apply cq_nil|].
  destruct (k =? t); [exact Hd|exact IH].
Qed.

Lemma walk_rrsets_cons nm k d (tl : rrsets) v :
  walk_rrsets nm ((k, d) :: tl) v =
  (match v_get d v with Some rr => [(nm, k, rr)] | None => [] end) ++ walk_rrsets nm tl v.
Proof. reflexivity. Qed.

Lemma walk_upd_base c w t f (rs : rrsets) nm v :
  c < w -> wl w f -> rs_q c w rs ->
  walk_rrsets nm (rs_rollback (al_upd t f [] rs) w) v = walk_rrsets nm (rs_rollback rs w) v.
Proof.
  intros Hc Hf H. unfold rs_rollback, rs_all.
  induction H as [|[k d] tl Hd _ IH]; cbn [al_upd al_map map fst snd].
  - rewrite walk_rrsets_cons. rewrite (Hf [] (Forall_nil _)). reflexivity.
  - destruct (k =? t); cbn [al_map map fst snd]; rewrite !walk_rrsets_cons.
    + now rewrite (Hf d (cq_nov c w d Hc Hd)).
    + f_equal. exact IH.
Qed.

Lemma rs_at_base c w t f rs :
  c < w -> wl w f -> rs_q c w rs ->
  rs_eqv (rs_rollback (rs_at t f rs) w) (rs_rollback rs w).
Proof.
  intros Hc Hf H. split.
  - intros t'. unfold rs_rollback, rs_all, rs_at. rewrite !cell_map by reflexivity.
    rewrite cell_upd. destruct (N.eqb_spec t' t) as [->|_]; [|reflexivity].
    apply Hf. apply (cq_nov c); [exact Hc|now apply cell_q].
  - intros nm v. now apply (walk_upd_base c).
Qed.

Lemma rs_all_base c w f rs :
  c < w -> wl w f -> rs_q c w rs -> rs_rollback (rs_all f rs) w = rs_rollback rs w.
Proof.
  intros Hc Hf H. unfold rs_rollback, rs_all, al_map. rewrite map_map. apply map_ext_in.
  intros [k d] Hin. cbn. f_equal. apply Hf. apply (cq_nov c); [exact Hc|].
  unfold rs_q in H. rewrite Forall_forall in H. exact (H (k, d) Hin).
Qed.

Lemma rs_at_q c w t f rs : c < w -> wl w f -> rs_q c w rs -> rs_q c w (rs_at t f rs).
Proof.
  intros Hc Hf H. apply Forall_al_upd; [|apply cq_nil|exact H].
  intros d Hd. now apply wl_cq.
Qed.
Lemma rs_all_q c w f rs : c < w -> wl w f -> rs_q c w rs -> rs_q c w (rs_all f rs).
Proof. intros Hc Hf H. apply Forall_al_map; [|exact H]. intros d Hd. now apply wl_cq. Qed.

Lemma rs_update_wl c w t rr rs :
  c < w -> rs_q c w rs ->
  rs_q c w (rs_update rs t rr w) /\ rs_eqv (rs_rollback (rs_update rs t rr w) w) (rs_rollback rs w).
Proof.
  intros Hc H. unfold rs_update, rs_remove_rtype.
  destruct ((rr =? 0) && update_empty_rrset_is_remove).
  - split; [apply rs_at_q|apply (rs_at_base c)]; auto using wl_remove.
  - split; [apply rs_at_q|apply (rs_at_base c)]; auto using wl_update.
Qed.

Lemma rs_remove_wl c w t rs :
  c < w -> rs_q c w rs ->
  rs_q c w (rs_remove_rtype rs t w) /\ rs_eqv (rs_rollback (rs_remove_rtype rs t w) w) (rs_rollback rs w).
Proof.
  intros Hc H. unfold rs_remove_rtype.
  split; [apply rs_at_q|apply (rs_at_base c)]; auto using wl_remove.
Qed.

(* reading below w through the base *)
Lemma rs_get_base w rs t r :
  ver_le w r = false -> rs_get (rs_rollback rs w) t r = rs_get rs t r.
Proof.
  intros Hr. unfold rs_get, rs_rollback, rs_all. rewrite cell_map by reflexivity. now apply get_base.
Qed.

Lemma walk_rrsets_base w nm rs r :
  ver_le w r = false -> walk_rrsets nm (rs_rollback rs w) r = walk_rrsets nm rs r.
Proof.
  intros Hr. unfold rs_rollback, rs_all. induction rs as [|[k d] tl IH]; [reflexivity|].
  cbn [al_map map fst snd]. rewrite !walk_rrsets_cons. rewrite (get_base w d r Hr). f_equal. exact IH.
Qed.

Lemma rs_rollback_id c w rs : c < w -> Forall (fun p => le_all c (snd p)) rs -> rs_rollback rs w = rs.
Proof.
  intros Hc H. unfold rs_rollback, rs_all. apply al_map_id. intros p Hin.
  rewrite Forall_forall in H. exact (rollback_id c w _ Hc (H _ Hin)).
Qed.

(* ---------------------------------------------------------------- ZoneNode *)

Definition n_q (c w : N) (n : znode) : Prop := rs_q c w (n_rrsets n) /\ cq c w (n_special n).

Definition n_eqv (a b : znode) : Prop := rs_eqv (n_rrsets a) (n_rrsets b) /\ n_special a = n_special b.

Lemma n_eqv_refl a : n_eqv a a.
Proof. split; [apply rs_eqv_refl|reflexivity]. Qed.
Lemma n_eqv_trans a b c : n_eqv a b -> n_eqv b c -> n_eqv a c.
Proof. intros [H1 H2] [H3 H4]. split; [eapply rs_eqv_trans; eauto|congruence]. Qed.
Lemma n_eqv_sym a b : n_eqv a b -> n_eqv b a.
Proof. intros [H1 H2]. split; [now apply rs_eqv_sym|congruence]. Qed.

(* F acts on the node's cells through w-local functions only *)
Definition nl (w : N) (F : znode -> znode) : Prop :=
  forall c n, c < w -> n_q c w n -> n_q c w (F n) /\ n_eqv (n_rollback (F n) w) (n_rollback n w).

Lemma n_rollback_eq n w : n_rollback n w = mknode (rs_rollback (n_rrsets n) w) (v_rollback (n_special n) w).
Proof. reflexivity. Qed.

Lemma nl_id w : nl w (fun n => n).
Proof. intros c n Hc H. split; [exact H|apply n_eqv_refl]. Qed.

Lemma nl_comp w F G : nl w F -> nl w G -> nl w (fun n => G (F n)).
Proof.
  intros HF HG c n Hc H. destruct (HF c n Hc H) as [H1 H2]. destruct (HG c (F n) Hc H1) as [H3 H4].
  split; [exact H3|eapply n_eqv_trans; eauto].
Qed.

Lemma nl_update_special w s : nl w (fun n => n_update_special n w s).
Proof.
  intros c n Hc [Hr Hs]. unfold n_update_special. split.
  - split; cbn [n_rrsets n_special]; [exact Hr|].
    apply (wl_cq c w (fun d => v_update d w s)); auto using wl_update.
  - rewrite !n_rollback_eq. cbn [n_rrsets n_special]. split; cbn [n_rrsets n_special]; [apply rs_eqv_refl|].
    apply wl_update. now apply (cq_nov c).
Qed.

Lemma nl_check_nx w : nl w (fun n => check_nx n w).
Proof.
  intros c n Hc H. unfold check_nx. destruct nx_marker_follows_emptiness; [|now apply nl_id].
  destruct (n_with_special n w) as [[id|]|].
  - now apply nl_id.
  - destruct (negb (rs_is_empty (n_rrsets n) w)); [now apply nl_update_special|now apply nl_id].
  - destruct (rs_is_empty (n_rrsets n) w); [now apply nl_update_special|now apply nl_id].
Qed.

Lemma nl_set_rrsets w (G : rrsets -> rrsets) :
  (forall c rs, c < w -> rs_q c w rs -> rs_q c w (G rs) /\ rs_eqv (rs_rollback (G rs) w) (rs_rollback rs w)) ->
  nl w (fun n => mknode (G (n_rrsets n)) (n_special n)).
Proof.
  intros HG c n Hc [Hr Hs]. destruct (HG c _ Hc Hr) as [H1 H2]. split.
  - split; assumption.
  - rewrite !n_rollback_eq. split; cbn [n_rrsets n_special]; [exact H2|reflexivity].
Qed.

Lemma nl_update_rrset w t rr : nl w (fun n => n_update_rrset n t rr w).
Proof.
  unfold n_update_rrset.
  apply (nl_comp w (fun n => mknode (rs_update (n_rrsets n) t rr w) (n_special n)) (fun n => check_nx n w));
    [|apply nl_check_nx].
  apply (nl_set_rrsets w (fun rs => rs_update rs t rr w)). intros c rs Hc H. now apply rs_update_wl.
Qed.

Lemma nl_remove_rrset w t : nl w (fun n => n_remove_rrset n t w).
Proof.
  unfold n_remove_rrset.
  apply (nl_comp w (fun n => mknode (rs_remove_rtype (n_rrsets n) t w) (n_special n)) (fun n => check_nx n w));
    [|apply nl_check_nx].
  apply (nl_set_rrsets w (fun rs => rs_remove_rtype rs t w)). intros c rs Hc H. now apply rs_remove_wl.
Qed.

Lemma nl_make_regular w : nl w (fun n => n_make_regular n w).
Proof.
  unfold n_make_regular.
  apply (nl_comp w (fun n => n_update_special n w None) (fun n => check_nx n w));
    [apply nl_update_special|apply nl_check_nx].
Qed.

Lemma nl_make_cname w id : nl w (fun n => n_make_cname n id w).
Proof. unfold n_make_cname. apply nl_update_special. Qed.

Lemma nl_remove_all w : nl w (fun n => n_remove_all n w).
Proof.
  intros c n Hc [Hr Hs]. unfold n_remove_all. cbv [node_remove_all_rrsets node_remove_all_special]. split.
  - split; cbn [n_rrsets n_special].
    + apply rs_all_q; auto using wl_remove.
    + apply (wl_cq c w (fun d => v_remove d w)); auto using wl_remove.
  - rewrite !n_rollback_eq. split; cbn [n_rrsets n_special].
    + unfold rs_remove_all. rewrite (rs_all_base c); auto using wl_remove. apply rs_eqv_refl.
    + apply wl_remove. now apply (cq_nov c).
Qed.

(* ---------------------------------------------------------------- zone *)

Definition ns_q (c w : N) (ns : list (N * znode)) : Prop := Forall (fun p => n_q c w (snd p)) ns.
Definition z_q (c w : N) (s : zstate) : Prop := rs_q c w (z_apex s) /\ ns_q c w (z_nodes s).

(* a node all of whose cells are empty: what rollback leaves of a node that the
   rolled-back version created *)
Definition n_blank (n : znode) : Prop := n_eqv n empty_node.

(* `b` is `a` with equivalent nodes, followed by blank nodes *)
Inductive ns_le : list (N * znode) -> list (N * znode) -> Prop :=
| ns_le_nil extra : Forall (fun p => n_blank (snd p)) extra -> ns_le [] extra
| ns_le_cons k n n' a b : n_eqv n n' -> ns_le a b -> ns_le ((k, n) :: a) ((k, n') :: b).

Definition z_eqv (a b : zstate) : Prop := rs_eqv (z_apex a) (z_apex b) /\ ns_le (z_nodes a) (z_nodes b).

Lemma ns_le_refl a : ns_le a a.
Proof. induction a as [|[k n] tl IH]; constructor; [constructor|apply n_eqv_refl|exact IH]. Qed.

Lemma blank_le b c : Forall (fun p => n_blank (snd p)) b -> ns_le b c -> Forall (fun p => n_blank (snd p)) c.
Proof.
  intros Hb H. induction H as [extra He|k n n' a b Hn _ IH]; [exact He|].
  inversion Hb as [|? ? Hn0 Htl]; subst. cbn [snd] in Hn0. constructor; [|now apply IH].
  cbn [snd]. unfold n_blank in *. eapply n_eqv_trans; [apply n_eqv_sym; exact Hn|exact Hn0].
Qed.

Lemma ns_le_trans a b c : ns_le a b -> ns_le b c -> ns_le a c.
Proof.
  intros H. revert c. induction H as [extra He|k n n' a b Hn _ IH]; intros c Hc.
  - constructor. now apply (blank_le extra).
  - inversion Hc as [|? ? n'' ? c' Hn' Hc']; subst. constructor; [eapply n_eqv_trans; eauto|now apply IH].
Qed.

Lemma z_eqv_refl a : z_eqv a a.
Proof. split; [apply rs_eqv_refl|apply ns_le_refl]. Qed.
Lemma z_eqv_trans a b c : z_eqv a b -> z_eqv b c -> z_eqv a c.
Proof. intros [H1 H2] [H3 H4]. split; [eapply rs_eqv_trans; eauto|eapply ns_le_trans; eauto]. Qed.

Lemma z_rollback_eq s w :
  z_rollback s w = mkz (z_cur s) (rs_rollback (z_apex s) w) (al_map (fun n => n_rollback n w) (z_nodes s)) (z_writer s).
Proof. reflexivity. Qed.

Lemma n_q_empty c w : n_q c w empty_node.
Proof. split; constructor. Qed.

(* update_child + F: in place if the child exists, otherwise a new node that the
   rollback of w turns into a blank one *)
Lemma child_do_le c w ns name F :
  c < w -> nl w F -> ns_q c w ns ->
  ns_q c w (child_do ns name w F) /\
  ns_le (al_map (fun n => n_rollback n w) ns) (al_map (fun n => n_rollback n w) (child_do ns name w F)).
Proof.
  intros Hc HF H. unfold child_do. cbv [update_child_creates_node].
  induction H as [|[k n] tl Hn Htl IH]; cbn [al_upd].
  - destruct (nl_comp w _ _ (nl_make_regular w) HF c empty_node Hc (n_q_empty c w)) as [H1 H2].
    split; [constructor; [exact H1|constructor]|].
    cbn [al_map map fst snd]. constructor. constructor; [|constructor]. exact H2.
  - destruct (k =? name).
    + destruct (HF c n Hc Hn) as [H1 H2]. split.
      * constructor; assumption.
      * cbn [al_map map fst snd]. constructor; [apply n_eqv_sym; exact H2|apply ns_le_refl].
    + destruct IH as [H1 H2]. split.
      * constructor; assumption.
      * cbn [al_map map fst snd]. constructor; [apply n_eqv_refl|exact H2].
Qed.

Lemma ns_map_nl c w F ns :
  c < w -> nl w F -> ns_q c w ns ->
  ns_q c w (al_map F ns) /\
  ns_le (al_map (fun n => n_rollback n w) ns) (al_map (fun n => n_rollback n w) (al_map F ns)).
Proof.
  intros Hc HF H. induction H as [|[k n] tl Hn _ [IH1 IH2]]; cbn [al_map map fst snd].
  - split; [constructor|apply ns_le_refl].
  - destruct (HF c n Hc Hn) as [H1 H2]. split; [constructor; auto|].
    constructor; [apply n_eqv_sym; exact H2|exact IH2].
Qed.

Lemma set_nodes_q c w s ns : rs_q c w (z_apex s) -> ns_q c w ns -> z_q c w (set_nodes s ns).
Proof. intros; split; assumption. Qed.

(* THE step lemma: whatever data operation the writer of version w performs
   (including update_child for a name that has no node yet), the rolled-back
   zone stays the same up to empty cells and blank nodes *)
Lemma data_op_base c w s e :
  c < w -> z_q c w s ->
  z_q c w (data_op s w e) /\ z_eqv (z_rollback s w) (z_rollback (data_op s w e) w).
Proof.
  intros Hc [Ha Hn].
  assert (Hchild : forall name F, nl w F ->
            z_q c w (set_nodes s (child_do (z_nodes s) name w F)) /\
            z_eqv (z_rollback s w) (z_rollback (set_nodes s (child_do (z_nodes s) name w F)) w)).
  { intros name F HF. destruct (child_do_le c w _ name F Hc HF Hn) as [H1 H2].
    split; [now apply set_nodes_q|]. rewrite !z_rollback_eq. split; cbn [z_apex z_nodes set_nodes]; [apply rs_eqv_refl|exact H2]. }
  assert (Hsame : z_q c w s /\ z_eqv (z_rollback s w) (z_rollback s w)) by (split; [split; assumption|apply z_eqv_refl]).
  destruct e; cbn [data_op]; try exact Hsame.
  - (* EUpdate *)
    destruct (N.eqb_spec name 0) as [->|Hne].
    + destruct (rs_update_wl c w t rr _ Hc Ha) as [H1 H2].
      split; [split; assumption|]. rewrite !z_rollback_eq. split; cbn [z_apex z_nodes set_apex]; [apply rs_eqv_sym; exact H2|apply ns_le_refl].
    + apply Hchild. apply nl_update_rrset.
  - (* ERemove *)
    destruct (N.eqb_spec name 0) as [->|Hne].
    + destruct (rs_remove_wl c w t _ Hc Ha) as [H1 H2].
      split; [split; assumption|]. rewrite !z_rollback_eq. split; cbn [z_apex z_nodes set_apex]; [apply rs_eqv_sym; exact H2|apply ns_le_refl].
    + apply Hchild. apply nl_remove_rrset.
  - (* ETouch *)
    destruct (N.eqb_spec name 0) as [->|Hne]; [exact Hsame|]. apply Hchild. apply nl_id.
  - (* ERemoveAll *)
    unfold z_remove_all. cbv [apex_remove_all_rrsets apex_remove_all_children].
    destruct (ns_map_nl c w (fun n => n_remove_all n w) _ Hc (nl_remove_all w) Hn) as [H1 H2].
    split.
    + split; cbn [z_apex z_nodes]; [apply rs_all_q; auto using wl_remove|exact H1].
    + rewrite !z_rollback_eq. split; cbn [z_apex z_nodes]; [|exact H2].
      unfold rs_remove_all. rewrite (rs_all_base c); auto using wl_remove. apply rs_eqv_refl.
  - (* ERemoveAllAt *)
    destruct (N.eqb_spec name 0) as [->|Hne]; [exact Hsame|]. apply Hchild. apply nl_remove_all.
  - (* ECname *)
    destruct (N.eqb_spec name 0) as [->|Hne]; [exact Hsame|]. apply Hchild. apply nl_make_cname.
  - (* ERegular *)
    destruct (N.eqb_spec name 0) as [->|Hne]; [exact Hsame|]. apply Hchild. apply nl_make_regular.
Qed.

(* ---------------------------------------------------------------- observations respect z_eqv *)

Lemma rs_get_eqv a b t v : rs_eqv a b -> rs_get a t v = rs_get b t v.
Proof. intros [H _]. unfold rs_get. now rewrite H. Qed.

Lemma is_empty_walk rs v :
  rs_is_empty rs v = match walk_rrsets 0 rs v with [] => true | _ => false end.
Proof.
  induction rs as [|[k d] tl IH]; [reflexivity|].
  rewrite walk_rrsets_cons. cbn [rs_is_empty forallb snd]. destruct (v_get d v); [reflexivity|exact IH].
Qed.

Lemma is_empty_eqv a b v : rs_eqv a b -> rs_is_empty a v = rs_is_empty b v.
Proof. intros [_ H]. now rewrite !is_empty_walk, H. Qed.

Lemma n_exists_eqv a b v : n_eqv a b -> n_exists a v = n_exists b v.
Proof.
  intros [Hr Hs]. unfold n_exists, n_with_special. now rewrite (is_empty_eqv _ _ v Hr), Hs.
Qed.

Lemma n_exists_blank n v : n_blank n -> n_exists n v = false.
Proof. intros H. now rewrite (n_exists_eqv _ _ v H). Qed.

Lemma node_here_eqv a b v t soa : n_eqv a b -> node_here a v t soa = node_here b v t soa.
Proof.
  intros [Hr Hs]. unfold node_here, n_with_special. rewrite Hs. now rewrite (rs_get_eqv _ _ t v Hr).
Qed.

Lemma al_get_in {A} k (l : list (N * A)) y : al_get k l = Some y -> exists k', In (k', y) l.
Proof.
  induction l as [|[k0 a] tl IH]; cbn [al_get]; [discriminate|].
  destruct (k0 =? k); [intros E; inversion E; subst; eexists; now left|].
  intros E. destruct (IH E) as [k' Hin]. eexists; right; eauto.
Qed.

Lemma al_get_le k a b :
  ns_le a b ->
  match al_get k a, al_get k b with
  | Some x, Some y => n_eqv x y
  | None, None => True
  | None, Some y => n_blank y
  | Some _, None => False
  end.
Proof.
  intros H. induction H as [extra He|k0 n n' a b Hn _ IH]; cbn [al_get].
  - destruct (al_get k extra) as [y|] eqn:E; [|exact I].
    destruct (al_get_in _ _ _ E) as [k' Hin]. rewrite Forall_forall in He. exact (He _ Hin).
  - destruct (k0 =? k); [exact Hn|exact IH].
Qed.

Lemma child_at_le k v a b :
  ns_le a b ->
  match child_at a k v, child_at b k v with
  | Some x, Some y => n_eqv x y
  | None, None => True
  | _, _ => False
  end.
Proof.
  intros H. pose proof (al_get_le k a b H) as Hg. unfold child_at. cbv [query_follows_only_existing_children].
  destruct (al_get k a) as [x|], (al_get k b) as [y|]; try contradiction.
  - rewrite (n_exists_eqv _ _ v Hg). destruct (n_exists y v); [exact Hg|exact I].
  - now rewrite (n_exists_blank y v Hg).
  - exact I.
Qed.

Lemma query_eqv a b v name t : z_eqv a b -> query a v name t = query b v name t.
Proof.
  intros [Ha Hn]. unfold query. rewrite (rs_get_eqv _ _ 6 v Ha).
  destruct (name =? 0); [now rewrite (rs_get_eqv _ _ t v Ha)|].
  pose proof (child_at_le name v _ _ Hn) as H1. pose proof (child_at_le 1 v _ _ Hn) as H2.
  destruct (child_at (z_nodes a) name v), (child_at (z_nodes b) name v); try contradiction.
  - now apply node_here_eqv.
  - destruct (child_at (z_nodes a) 1 v), (child_at (z_nodes b) 1 v); try contradiction; [now apply node_here_eqv|reflexivity].
Qed.

Lemma walk_node_eqv k n n' v : n_eqv n n' -> walk_node (k, n) v = walk_node (k, n') v.
Proof. intros [[_ Hw] Hs]. unfold walk_node, n_with_special. cbn [fst snd]. now rewrite Hw, Hs. Qed.

Lemma walk_eqv a b v : z_eqv a b -> walk a v = walk b v.
Proof.
  intros [[_ Ha] Hn]. unfold walk. rewrite Ha. f_equal.
  induction Hn as [extra He|k n n' x y Hn _ IH].
  - cbn [flat_map]. induction He as [|[k n] tl Hb _ IH]; [reflexivity|].
    cbn [flat_map]. rewrite <- IH, app_nil_r. cbn [snd] in Hb.
    now rewrite (walk_node_eqv k n empty_node v Hb).
  - cbn [flat_map]. now rewrite IH, (walk_node_eqv k n n' v Hn).
Qed.

(* a reader below w reads through the base *)
Lemma is_empty_base w rs r : ver_le w r = false -> rs_is_empty (rs_rollback rs w) r = rs_is_empty rs r.
Proof. intros Hr. now rewrite !is_empty_walk, (walk_rrsets_base w 0 rs r Hr). Qed.

Lemma n_exists_base w n r : ver_le w r = false -> n_exists (n_rollback n w) r = n_exists n r.
Proof.
  intros Hr. unfold n_exists, n_with_special. rewrite n_rollback_eq. cbn [n_rrsets n_special].
  now rewrite (is_empty_base w _ r Hr), (get_base w _ r Hr).
Qed.

Lemma node_here_base w n r t soa :
  ver_le w r = false -> node_here (n_rollback n w) r t soa = node_here n r t soa.
Proof.
  intros Hr. unfold node_here, n_with_special. rewrite n_rollback_eq. cbn [n_rrsets n_special].
  now rewrite (get_base w _ r Hr), (rs_get_base w _ t r Hr).
Qed.

Lemma child_at_base w ns k r :
  ver_le w r = false ->
  child_at (al_map (fun n => n_rollback n w) ns) k r = option_map (fun n => n_rollback n w) (child_at ns k r).
Proof.
  intros Hr. unfold child_at. rewrite al_get_map. destruct (al_get k ns) as [n|]; cbn [option_map]; [|reflexivity].
  rewrite (n_exists_base w n r Hr). cbv [query_follows_only_existing_children]. destruct (n_exists n r); reflexivity.
Qed.

Lemma query_base w s r name t :
  ver_le w r = false -> query (z_rollback s w) r name t = query s r name t.
Proof.
  intros Hr. unfold query. rewrite z_rollback_eq. cbn [z_apex z_nodes].
  rewrite !(rs_get_base w _ _ r Hr). destruct (name =? 0); [reflexivity|].
  rewrite !(child_at_base w _ _ r Hr).
  destruct (child_at (z_nodes s) name r); cbn [option_map]; [now apply node_here_base|].
  destruct (child_at (z_nodes s) 1 r); cbn [option_map]; [now apply node_here_base|reflexivity].
Qed.

Lemma walk_base w s r : ver_le w r = false -> walk (z_rollback s w) r = walk s r.
Proof.
  intros Hr. unfold walk. rewrite z_rollback_eq. cbn [z_apex z_nodes].
  rewrite (walk_rrsets_base w 0 _ r Hr). f_equal.
  unfold al_map. induction (z_nodes s) as [|[k n] tl IH]; [reflexivity|].
  cbn [map flat_map fst snd]. rewrite IH. f_equal.
  unfold walk_node, n_with_special. cbn [fst snd]. rewrite n_rollback_eq. cbn [n_rrsets n_special].
  now rewrite (walk_rrsets_base w k _ r Hr), (get_base w _ r Hr).
Qed.
