(* C09 proofs, part 5: what the writer's version reads after an update / a remove
   ("all of a commit's operations"): the stored cell of (name, type). *)
From Coq Require Import NArith ZArith List Bool Lia ZifyN ZifyBool ZifyNat.
From DV Require Import Base.Outcome C17.Model C09.Gen C09.Model C09.Proofs C09.ProofsZone.
Import ListNotations.
Local Open Scope N_scope.

(* the node a name leads to, whether or not it "exists" in some version *)
Fixpoint find_node (ns : list (N * znode)) (p : list N) : option znode :=
  match p with
  | [] => None
  | l :: rest =>
      match al_get l ns with
      | Some n => match rest with [] => Some n | _ => find_node (n_children n) rest end
      | None => None
      end
  end.

(* the Versioned<SharedRrset> stored for (name, type) *)
Definition cell_of (s : zstate) (name : list N) (t : N) : list (entry rrv) :=
  match name with
  | [] => cell t (z_apex s)
  | _ => match find_node (z_nodes s) name with Some n => cell t (n_rrsets n) | None => [] end
  end.

Lemma al_get_upd_same {A} k (f : A -> A) dflt (l : list (N * A)) :
  al_get k (al_upd k f dflt l) = Some (f (match al_get k l with Some a => a | None => dflt end)).
Proof. rewrite al_get_upd. now rewrite N.eqb_refl. Qed.

Lemma al_get_q c w k ns n : ns_q c w ns -> al_get k ns = Some n -> n_q c w n.
Proof.
  intros H E. destruct (al_get_in _ _ _ E) as [k' Hin]. unfold ns_q, ns_all in H. rewrite Forall_forall in H.
  exact (H (k', n) Hin).
Qed.

Lemma find_path_do c w fresh f : n_q c w fresh -> forall p ns, p <> [] -> ns_q c w ns ->
  exists n0, n_q c w n0 /\ find_node (path_do ns p fresh f) p = Some (f n0).
Proof.
  intros Hfresh. induction p as [|l rest IH]; intros ns Hp Hns; [contradiction|].
  cbn [path_do find_node]. rewrite al_get_upd_same.
  set (x := match al_get l ns with Some a => a | None => fresh end).
  assert (Hx : n_q c w x).
  { subst x. destruct (al_get l ns) as [a|] eqn:E; [now apply (al_get_q c w l ns)|exact Hfresh]. }
  destruct rest as [|l' rest']; [exists x; split; [exact Hx|reflexivity]|].
  destruct x as [rs sp ch]. unfold set_children. cbn [n_children n_rrsets n_special].
  destruct (n_q_inv _ _ _ _ _ Hx) as [_ [_ Hch]].
  destruct (IH ch ltac:(discriminate) Hch) as [n0 [H1 H2]]. exists n0. split; [exact H1|exact H2].
Qed.

Lemma check_nx_rrsets n w : n_rrsets (check_nx n w) = n_rrsets n.
Proof.
  unfold check_nx. destruct nx_marker_follows_emptiness; [|reflexivity].
  destruct (n_with_special n w) as [[ns ds glue|id|]|]; try reflexivity.
  - destruct (negb (rs_is_empty (n_rrsets n) w)); destruct n; reflexivity.
  - destruct (rs_is_empty (n_rrsets n) w); destruct n; reflexivity.
Qed.

Lemma fresh_q c w : c < w -> n_q c w (fresh_node w).
Proof.
  intros Hc. unfold fresh_node. cbv [update_child_creates_node].
  exact (proj1 (nl_make_regular w c empty_node Hc (n_q_empty c w))).
Qed.

(* after update_rrset the writer's version (and every later reader until the next
   change) reads the new RRset *)
Theorem update_effect : forall c w s name t rr r,
  c < w -> z_q c w s -> rrv_is_empty rr = false -> ver_le w r = true ->
  v_get (cell_of (data_op s w (EUpdate name t rr)) name t) r = Some rr.
Proof.
  intros c w s name t rr r Hc [Ha Hn] Hrr Hr. cbn [data_op].
  assert (Hupd : forall rs, cell t (rs_update rs t rr w) = v_update (cell t rs) w rr).
  { intros rs. unfold rs_update. rewrite Hrr. cbn [andb].
    unfold rs_at. now rewrite cell_upd, N.eqb_refl. }
  destruct name as [|l rest].
  - cbn [cell_of set_apex z_apex]. rewrite Hupd. now apply cell_update_value.
  - unfold at_node, child_do. cbn [cell_of set_nodes z_nodes].
    destruct (find_path_do c w (fresh_node w) (fun n => n_update_rrset n t rr w) (fresh_q c w Hc) (l :: rest) (z_nodes s) ltac:(discriminate) Hn)
      as [n0 [_ E]].
    rewrite E. unfold n_update_rrset. rewrite check_nx_rrsets. destruct n0 as [rs sp ch]. unfold set_rrsets. cbn [n_rrsets].
    rewrite Hupd. now apply cell_update_value.
Qed.

Lemma visible_of_cq {T} c w r (d : list (entry T)) :
  c < w -> w <= r -> r < LIM -> cq c w d -> Forall (fun it => ver_le (fst it) r = true) d.
Proof.
  unfold LIM. intros Hc Hw Hr H. unfold cq in H. rewrite v_rollback_eq in H.
  destruct d as [|[lv lx] rest]; [constructor|].
  assert (Hall : forall l : list (entry T), le_all c l -> Forall (fun it => ver_le (fst it) r = true) l).
  { intros l Hl. eapply Forall_impl; [|exact Hl]. intros it Hit. cbn in Hit. rewrite ver_le_small by (unfold LIM; lia). apply N.leb_le. lia. }
  destruct (N.eqb_spec lv w) as [->|_].
  - constructor; [cbn [fst]; rewrite ver_le_small by (unfold LIM; lia); apply N.leb_le; lia|now apply Hall].
  - now apply Hall.
Qed.

(* after remove_rrset they read nothing *)
Theorem remove_effect : forall c w s name t r,
  c < w -> z_q c w s -> w <= r -> r < LIM ->
  v_get (cell_of (data_op s w (ERemove name t)) name t) r = None.
Proof.
  intros c w s name t r Hc [Ha Hn] Hw Hr. cbn [data_op].
  assert (Hle : ver_le w r = true) by (rewrite ver_le_small by (unfold LIM in *; lia); apply N.leb_le; lia).
  assert (Hrem : forall rs, rs_q c w rs -> v_get (cell t (rs_remove_rtype rs t w)) r = None).
  { intros rs Hrs. unfold rs_remove_rtype, rs_at. rewrite cell_upd, N.eqb_refl.
    apply cell_remove_value; [exact Hle|]. apply (visible_of_cq c w r); auto. now apply cell_q. }
  destruct name as [|l rest].
  - cbn [cell_of set_apex z_apex]. now apply Hrem.
  - unfold at_node, child_do. cbn [cell_of set_nodes z_nodes].
    destruct (find_path_do c w (fresh_node w) (fun n => n_remove_rrset n t w) (fresh_q c w Hc) (l :: rest) (z_nodes s) ltac:(discriminate) Hn)
      as [n0 [Hq0 E]].
    rewrite E. unfold n_remove_rrset. rewrite check_nx_rrsets. destruct n0 as [rs sp ch]. unfold set_rrsets. cbn [n_rrsets].
    apply Hrem. exact (proj1 (n_q_inv _ _ _ _ _ Hq0)).
Qed.

Definition r1 (x : N) : rrv := (3600, [x]).
Example ex_effects :
  let s := build [IRrset [] 6 (r1 1); IRrset [2; 3] 1 (r1 11)] in
  v_get (cell_of (data_op s 1 (EUpdate [2; 3] 1 (r1 12))) [2; 3] 1) 1 = Some (r1 12) /\
  v_get (cell_of (data_op s 1 (EUpdate [2; 3] 1 (r1 12))) [2; 3] 1) 0 = Some (r1 11) /\
  v_get (cell_of (data_op s 1 (ERemove [2; 3] 1)) [2; 3] 1) 1 = None /\
  v_get (cell_of (data_op s 1 (EUpdate [4; 5; 6] 16 (r1 13))) [4; 5; 6] 16) 1 = Some (r1 13).
Proof. repeat split; reflexivity. Qed.
