(* C09 -- property theorems only.  Proofs live in C09/Proofs*.v. *)
From Coq Require Import NArith List.
From DV Require Import Base.Outcome C09.Gen C09.Model C09.Proofs C09.ProofsZone C09.ProofsTrace C09.ProofsVersions C09.ProofsEffect C09.ProofsValues C09.ProofsSession.
Import ListNotations.
Local Open Scope N_scope.

Theorem C09_versioned_get_spec : forall {T} (d : list (entry T)) v,
  desc d -> le_all (LIM - 1) d -> v < LIM ->
  (forall u x, In (u, x) d -> u <= v ->
     (forall u' x', In (u', x') d -> u' <= v -> u' <= u) -> v_get d v = x) /\
  ((forall u x, In (u, x) d -> v < u) -> v_get d v = None).
Proof. exact @versioned_get_spec. Qed.
Print Assumptions C09_versioned_get_spec.

Theorem C09_history_monotone : forall {T} (os : list (cop T)) lo (d : list (entry T)),
  desc d -> le_all lo d -> mono_hist lo os ->
  desc (c_run d os) /\
  (forall hi, Forall (fun o => cop_ver o <= hi) os -> lo <= hi -> le_all hi (c_run d os)).
Proof. exact @history_monotone. Qed.
Print Assumptions C09_history_monotone.

Theorem C09_cell_open_version_last_only : forall {T} w (b : list (entry T)) os,
  nov w b -> Forall (fun o => cop_ver o = w) os ->
  match c_run b os with [] => True | _ :: rest => nov w rest end.
Proof. exact @cell_open_version_last_only. Qed.
Print Assumptions C09_cell_open_version_last_only.

Theorem C09_cell_snapshot_isolation : forall {T} w (b : list (entry T)) os r,
  nov w b -> Forall (fun o => cop_ver o = w) os -> ver_le w r = false ->
  v_get (c_run b os) r = v_get b r.
Proof. exact @cell_snapshot_isolation. Qed.
Print Assumptions C09_cell_snapshot_isolation.

Theorem C09_cell_rollback_restores : forall {T} w (b : list (entry T)) os,
  nov w b -> Forall (fun o => cop_ver o = w) os -> v_rollback (c_run b os) w = b.
Proof. exact @cell_rollback_restores. Qed.
Print Assumptions C09_cell_rollback_restores.

Theorem C09_cell_update_value : forall {T} (d : list (entry T)) w x r,
  ver_le w r = true -> v_get (v_update d w x) r = Some x.
Proof. exact @cell_update_value. Qed.
Print Assumptions C09_cell_update_value.

Theorem C09_cell_remove_value : forall {T} (d : list (entry T)) w r,
  ver_le w r = true -> Forall (fun it => ver_le (fst it) r = true) d ->
  v_get (v_remove d w) r = None.
Proof. exact @cell_remove_value. Qed.
Print Assumptions C09_cell_remove_value.

Theorem C09_update_then_remove_same_version : forall {T} (d : list (entry T)) w x,
  v_remove (v_update d w x) w = match v_rollback d w with [] => [] | b => (w, None) :: b end.
Proof. exact @update_then_remove_same_version. Qed.
Print Assumptions C09_update_then_remove_same_version.

Theorem C09_update_then_remove_reads : forall {T} (b : list (entry T)) w x r,
  nov w b ->
  v_rollback (v_remove (v_update b w x) w) w = b /\
  (ver_le w r = false -> v_get (v_remove (v_update b w x) w) r = v_get b r) /\
  (ver_le w r = true -> v_get (v_remove (v_update b w x) w) r = None).
Proof. exact @update_then_remove_reads. Qed.
Print Assumptions C09_update_then_remove_reads.

(* ---- zone level: traces of API calls (run = fold of step over the events) over
   the whole node tree (names are label paths; zone cuts, CNAMEs, wildcards, ANY).
   No restriction on the data operations: update_child for names without a node
   included (node existence is derived from versioned data since /repo 1953e6b).
   `stale_free evs`: the trace does not use a write handle after the commit/drop
   that ended its session, OR the implementation rejects such use (T1 flag);
   see C09_stale_handle_refuted for what happens otherwise. ---- *)

Theorem C09_snapshot_isolation : forall evs s r,
  zinv s -> r <= z_cur s -> z_cur s + ncommits evs + 2 < LIM -> stale_free evs ->
  (forall name t, query (run s evs) r name t = query s r name t) /\ walk (run s evs) r = walk s r.
Proof. exact snapshot_isolation. Qed.
Print Assumptions C09_snapshot_isolation.

Theorem C09_reader_sees_acquire_time : forall s rd r evs name t,
  zinv s -> z_cur s + ncommits evs + 2 < LIM -> stale_free evs ->
  forallb (fun e => negb (touches_reader r e)) evs = true ->
  exists before,
    trace s rd (EAcquire r :: evs ++ [EQuery r name t; EWalk r]) =
    before ++ [OAnswer (query s (z_cur s) name t); OWalk (walk s (z_cur s))].
Proof. exact reader_sees_acquire_time. Qed.
Print Assumptions C09_reader_sees_acquire_time.

Theorem C09_commit_atomic : forall s ops,
  zinv s -> z_writer s = None -> z_cur s + 2 < LIM -> all_data ops ->
  let sN := run s ([EWAcquire; EWOpen] ++ ops) in
  let sC := step sN ECommit in
  (z_cur sN = z_cur s /\
   (forall name t, query sN (z_cur s) name t = query s (z_cur s) name t) /\ walk sN (z_cur s) = walk s (z_cur s)) /\
  (z_cur sC = z_cur s + 1 /\
   forall v, (forall name t, query sC v name t = query sN v name t) /\ walk sC v = walk sN v).
Proof. exact commit_atomic. Qed.
Print Assumptions C09_commit_atomic.

Theorem C09_abort_invisible : forall s ops,
  zinv s -> z_writer s = None -> z_cur s + 1 < LIM -> all_data ops ->
  let s' := run s ([EWAcquire; EWOpen] ++ ops ++ [EDrop]) in
  z_cur s' = z_cur s /\ z_writer s' = None /\
  forall v, (forall name t, query s' v name t = query s v name t) /\ walk s' v = walk s v.
Proof. exact abort_invisible. Qed.
Print Assumptions C09_abort_invisible.

Theorem C09_writers_serialised : forall s wr,
  zinv s -> z_writer s = Some wr ->
  step s EWAcquire = s /\ w_new wr = z_cur s + 1 /\
  (forall rd tl, exists rest, trace s rd (EWAcquire :: tl) = OPending :: rest).
Proof. exact writers_serialised. Qed.
Print Assumptions C09_writers_serialised.

Theorem C09_walk_exact : forall s v x,
  In x (walk s v) <->
  (exists t d rr, x = ([], t, rr) /\ In (t, d) (z_apex s) /\ v_get d v = Some rr) \/
  (exists k n, In (k, n) (z_nodes s) /\ n_has v [k] n x).
Proof. exact walk_exact. Qed.
Print Assumptions C09_walk_exact.

Theorem C09_step_preserves_invariant : forall s e,
  zinv s -> z_cur s + 2 < LIM -> stale_ok e ->
  zinv (step s e) /\ z_cur s <= z_cur (step s e) /\
  z_cur (step s e) <= z_cur s + (match e with ECommit | ECommitBump => 1 | _ => 0 end) /\
  (forall r, r <= z_cur s -> view_eq (step s e) s r).
Proof. exact step_inv. Qed.
Print Assumptions C09_step_preserves_invariant.

Theorem C09_reachable_invariant : forall is evs,
  ncommits evs + 2 < LIM -> stale_free evs -> zinv (run (build is) evs).
Proof. exact reachable_invariant. Qed.
Print Assumptions C09_reachable_invariant.

Theorem C09_stale_handle_refuted :
  stale_handle_rejected = false ->
  exists s evs r name t,
    zinv s /\ r <= z_cur s /\ z_cur s + ncommits evs + 2 < LIM /\ no_stale evs = false /\
    query s r name t = AData (r1 21) /\ query (run s evs) r name t = AData (r1 22).
Proof. exact stale_handle_refuted. Qed.
Print Assumptions C09_stale_handle_refuted.

Theorem C09_stale_handle_after_drop_refuted :
  stale_handle_rejected = false ->
  exists s evs name t,
    zinv s /\ z_writer s = None /\ no_stale evs = false /\
    query s 1 name t = ANoData (Some (3600, 1)) /\ query (run s evs) 1 name t = AData (r1 31).
Proof. exact stale_handle_after_drop_refuted. Qed.
Print Assumptions C09_stale_handle_after_drop_refuted.

(* ---- what the writer's version contains (read by new readers after the commit):
   cell_of s name t is the stored Versioned RRset of (name, type) ---- *)

Theorem C09_update_effect : forall c w s name t rr r,
  c < w -> z_q c w s -> rrv_is_empty rr = false -> ver_le w r = true ->
  v_get (cell_of (data_op s w (EUpdate name t rr)) name t) r = Some rr.
Proof. exact update_effect. Qed.
Print Assumptions C09_update_effect.

Theorem C09_remove_effect : forall c w s name t r,
  c < w -> z_q c w s -> w <= r -> r < LIM ->
  v_get (cell_of (data_op s w (ERemove name t)) name t) r = None.
Proof. exact remove_effect. Qed.
Print Assumptions C09_remove_effect.

(* ---- ZoneVersions / VersionMarker (clean_versions has no caller; tied by T1 only) ---- *)

Theorem C09_held_versions_never_cleaned : forall os,
  let z := zv_run os in
  In (zv_cur z) (zv_all z) /\ forall slot it, In (slot, it) (zv_readers z) -> In it (zv_all z).
Proof. exact held_versions_never_cleaned. Qed.
Print Assumptions C09_held_versions_never_cleaned.

Theorem C09_clean_removes_exactly_dead : forall z it,
  In it (zv_all z) ->
  (In it (zv_all (fst (zv_clean z))) <-> 0 < strong_count z (snd it)).
Proof. exact clean_removes_exactly_dead. Qed.
Print Assumptions C09_clean_removes_exactly_dead.

Theorem C09_clean_result : forall z,
  match snd (zv_clean z) with
  | None => zv_all (fst (zv_clean z)) = zv_all z
  | Some m => exists it, In it (zv_all z) /\ ~ In it (zv_all (fst (zv_clean z))) /\ fst it = m
  end.
Proof. exact clean_result. Qed.
Print Assumptions C09_clean_result.

(* ---- nodes that exist only in other versions; no trace of an aborted version; the lock across commit ---- *)

Theorem C09_nonexistent_node_is_absent : forall ns l v t soa,
  child_at ns l v = None ->
  forall p, q_children ns p v t soa = q_children (filter (fun q => negb (fst q =? l)) ns) p v t soa.
Proof. exact nonexistent_node_is_absent. Qed.
Print Assumptions C09_nonexistent_node_is_absent.

Theorem C09_nonexistent_node_not_walked : forall v n,
  n_exists n v = false -> forall path, walk_node path n v = [].
Proof. exact not_exists_walk. Qed.
Print Assumptions C09_nonexistent_node_not_walked.

Theorem C09_no_marker_above_current : forall is evs,
  ncommits evs + 2 < LIM -> stale_free evs ->
  let s := run (build is) evs in
  match z_writer s with
  | None => Forall (fun v => v <= z_cur s) (z_versions s)
  | Some wr => Forall (fun v => v <= z_cur s + 1) (z_versions s) /\ w_new wr = z_cur s + 1
  end.
Proof. exact no_marker_above_current. Qed.
Print Assumptions C09_no_marker_above_current.

Theorem C09_lock_held_across_commit : forall s wr,
  zinv s -> z_cur s + 2 < LIM -> z_writer s = Some wr ->
  let s' := step s ECommit in
  exists wr', z_writer s' = Some wr' /\ z_cur s' = z_cur s + 1 /\ w_new wr' = z_cur s' + 1 /\
    step s' EWAcquire = s' /\
    (forall rd tl, exists rest, trace s' rd (EWAcquire :: tl) = OPending :: rest) /\
    z_writer (step s' EWOpen) = Some (mkw (w_new wr') true true).
Proof. exact lock_held_across_commit. Qed.
Print Assumptions C09_lock_held_across_commit.

(* ---- no torn RRset: an RRset is a TTL and a record list; whatever is stored, answered
   or walked is, as a whole, an RRset that was written (or an SOA commit(true) derived) ---- *)

Theorem C09_stored_rrsets_were_written : forall (Q : rrv -> Prop) is evs,
  bump_closed Q -> Forall (init_vals Q) is -> Forall (ev_vals Q) evs -> z_vals Q (run (build is) evs).
Proof. exact stored_rrsets_were_written. Qed.
Print Assumptions C09_stored_rrsets_were_written.

Theorem C09_no_torn_rrset : forall (Q : rrv -> Prop) is evs v name t,
  bump_closed Q -> Forall (init_vals Q) is -> Forall (ev_vals Q) evs ->
  answer_vals Q (query (run (build is) evs) v name t) /\
  Forall (fun it => Q (snd it)) (walk (run (build is) evs) v).
Proof. exact no_torn_rrset. Qed.
Print Assumptions C09_no_torn_rrset.

(* ---- what a NEW reader gets (trace runner): before the commit call, right after it, after an
   abandoned session; the effect of remove_all; frame of the data operations ---- *)

Theorem C09_new_reader_visibility : forall s rd ops r name t,
  zinv s -> z_writer s = None -> z_cur s + 2 < LIM -> all_data ops ->
  let pre := [EWAcquire; EWOpen] ++ ops in
  (exists before,
     trace s rd (pre ++ [EAcquire r; EQuery r name t; EWalk r]) =
     before ++ [OAnswer (query s (z_cur s) name t); OWalk (walk s (z_cur s))]) /\
  (exists before,
     trace s rd ((pre ++ [ECommit]) ++ [EAcquire r; EQuery r name t; EWalk r]) =
     before ++ [OAnswer (query (run s pre) (z_cur s + 1) name t); OWalk (walk (run s pre) (z_cur s + 1))]) /\
  (exists before,
     trace s rd ((pre ++ [EDrop]) ++ [EAcquire r; EQuery r name t; EWalk r]) =
     before ++ [OAnswer (query s (z_cur s) name t); OWalk (walk s (z_cur s))]).
Proof. exact new_reader_visibility. Qed.
Print Assumptions C09_new_reader_visibility.

Theorem C09_remove_all_effect : forall c w s r,
  c < w -> z_q c w s -> w <= r -> r < LIM -> walk (data_op s w ERemoveAll) r = [].
Proof. exact remove_all_effect. Qed.
Print Assumptions C09_remove_all_effect.

Theorem C09_remove_all_at_effect : forall c w s name r,
  c < w -> z_q c w s -> w <= r -> r < LIM -> name <> [] ->
  exists n, find_node (z_nodes (data_op s w (ERemoveAllAt name))) name = Some n /\
    (forall path, walk_node path n r = []) /\
    (forall t, v_get (cell_of (data_op s w (ERemoveAllAt name)) name t) r = None).
Proof. exact remove_all_at_effect. Qed.
Print Assumptions C09_remove_all_at_effect.

Theorem C09_update_frame : forall s w name t rr name' t',
  name' <> name \/ t' <> t ->
  cell_of (data_op s w (EUpdate name t rr)) name' t' = cell_of s name' t'.
Proof. exact update_frame. Qed.
Print Assumptions C09_update_frame.

Theorem C09_remove_frame : forall s w name t name' t',
  name' <> name \/ t' <> t ->
  cell_of (data_op s w (ERemove name t)) name' t' = cell_of s name' t'.
Proof. exact remove_frame. Qed.
Print Assumptions C09_remove_frame.

Theorem C09_special_ops_frame : forall s w e name' t',
  is_special_op e = true -> cell_of (data_op s w e) name' t' = cell_of s name' t'.
Proof. exact special_ops_frame. Qed.
Print Assumptions C09_special_ops_frame.

(* ---- what the commit publishes: the last operation of the session on (name, type), read at
   the version every reader acquired from now on gets ---- *)

Theorem C09_committed_update_visible : forall s ops name t rr,
  zinv s -> z_writer s = None -> z_cur s + 2 < LIM -> all_data ops -> rrv_is_empty rr = false ->
  let sC := run s (([EWAcquire; EWOpen] ++ ops) ++ [EUpdate name t rr; ECommit]) in
  z_cur sC = z_cur s + 1 /\ v_get (cell_of sC name t) (z_cur sC) = Some rr.
Proof. exact committed_update_visible. Qed.
Print Assumptions C09_committed_update_visible.

Theorem C09_committed_remove_visible : forall s ops name t,
  zinv s -> z_writer s = None -> z_cur s + 2 < LIM -> all_data ops ->
  let sC := run s (([EWAcquire; EWOpen] ++ ops) ++ [ERemove name t; ECommit]) in
  z_cur sC = z_cur s + 1 /\ v_get (cell_of sC name t) (z_cur sC) = None.
Proof. exact committed_remove_visible. Qed.
Print Assumptions C09_committed_remove_visible.

Theorem C09_committed_remove_all_visible : forall s ops,
  zinv s -> z_writer s = None -> z_cur s + 2 < LIM -> all_data ops ->
  let sC := run s (([EWAcquire; EWOpen] ++ ops) ++ [ERemoveAll; ECommit]) in
  z_cur sC = z_cur s + 1 /\ walk sC (z_cur sC) = [].
Proof. exact committed_remove_all_visible. Qed.
Print Assumptions C09_committed_remove_all_visible.
