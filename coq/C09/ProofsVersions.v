(* C09 proofs, part 4: ZoneVersions / VersionMarker -- what clean_versions may
   remove.  (clean_versions has no caller in the crate; the model is tied to the
   source by T1 only.) *)
From Coq Require Import NArith ZArith List Bool Lia ZifyN ZifyBool ZifyNat.
From DV Require Import Base.Outcome C17.Model C09.Gen C09.Model C09.Proofs.
Import ListNotations.
Local Open Scope N_scope.

Lemma zv_alive_eq z it : zv_alive z it = (0 <? strong_count z (snd it)).
Proof. reflexivity. Qed.

Lemma count_held z slot it : In (slot, it) (zv_readers z) -> 0 < strong_count z (snd it).
Proof.
  intros H. unfold strong_count.
  assert (Hin : In (slot, it) (filter (fun p => snd (snd p) =? snd it) (zv_readers z))).
  { apply filter_In. split; [exact H|]. cbn [snd]. apply N.eqb_refl. }
  destruct (filter (fun p => snd (snd p) =? snd it) (zv_readers z)); [destruct Hin|]. cbn [length]. lia.
Qed.

Lemma count_current z : 0 < strong_count z (snd (zv_cur z)).
Proof. unfold strong_count. rewrite N.eqb_refl. lia. Qed.

(* a version some reader holds is never removed *)
Theorem clean_keeps_held : forall z slot it,
  In (slot, it) (zv_readers z) -> In it (zv_all z) -> In it (zv_all (fst (zv_clean z))).
Proof.
  intros z slot it Hr Hin. cbn [zv_clean fst zv_all]. apply filter_In. split; [exact Hin|].
  rewrite zv_alive_eq. apply N.ltb_lt. now apply (count_held z slot).
Qed.

(* neither is the current version *)
Theorem clean_keeps_current : forall z,
  In (zv_cur z) (zv_all z) -> In (zv_cur z) (zv_all (fst (zv_clean z))) /\ zv_cur (fst (zv_clean z)) = zv_cur z.
Proof.
  intros z Hin. split; [|reflexivity]. cbn [zv_clean fst zv_all]. apply filter_In. split; [exact Hin|].
  rewrite zv_alive_eq. apply N.ltb_lt. apply count_current.
Qed.

(* only entries whose marker nobody holds are removed, and all of those are *)
Theorem clean_removes_exactly_dead : forall z it,
  In it (zv_all z) ->
  (In it (zv_all (fst (zv_clean z))) <-> 0 < strong_count z (snd it)).
Proof.
  intros z it Hin. cbn [zv_clean fst zv_all]. rewrite filter_In, zv_alive_eq, N.ltb_lt. tauto.
Qed.

(* the result names a removed version, and nothing is returned iff nothing is removed *)
Lemma clean_max_spec z : forall l acc,
  match clean_max z l acc with
  | None => acc = None /\ forall it, In it l -> zv_alive z it = true
  | Some m => acc = Some m \/ exists it, In it l /\ zv_alive z it = false /\ fst it = m
  end.
Proof.
  induction l as [|it tl IH]; intros acc; cbn [clean_max].
  - destruct acc; [now left|split; [reflexivity|intros ? []]].
  - destruct (zv_alive z it) eqn:E.
    + specialize (IH acc). destruct (clean_max z tl acc) as [m|].
      * destruct IH as [H|[it' [H1 [H2 H3]]]]; [now left|right; exists it'; split; [now right|split; assumption]].
      * destruct IH as [H1 H2]. split; [exact H1|]. intros it' [<-|H]; [exact E|now apply H2].
    + set (acc' := match acc with
                   | Some old => if ver_op clean_max_cmp_op (fst it) old then Some (fst it) else Some old
                   | None => Some (fst it) end).
      specialize (IH acc'). destruct (clean_max z tl acc') as [m|].
      * destruct IH as [H|[it' [H1 [H2 H3]]]].
        -- subst acc'. destruct acc as [old|].
           ++ destruct (ver_op clean_max_cmp_op (fst it) old); inversion H; subst; [right; exists it; repeat split; [now left|exact E]|now left].
           ++ inversion H; subst. right. exists it. repeat split; [now left|exact E].
        -- right. exists it'. split; [now right|split; assumption].
      * destruct IH as [H _]. subst acc'. destruct acc as [old|]; [destruct (ver_op clean_max_cmp_op (fst it) old)|]; discriminate.
Qed.

Theorem clean_result : forall z,
  match snd (zv_clean z) with
  | None => zv_all (fst (zv_clean z)) = zv_all z
  | Some m => exists it, In it (zv_all z) /\ ~ In it (zv_all (fst (zv_clean z))) /\ fst it = m
  end.
Proof.
  intros z. cbn [zv_clean snd fst zv_all]. pose proof (clean_max_spec z (zv_all z) None) as H.
  destruct (clean_max z (zv_all z) None) as [m|].
  - destruct H as [H|[it [H1 [H2 H3]]]]; [discriminate|]. exists it. split; [exact H1|split; [|exact H3]].
    rewrite filter_In. intros [_ H4]. congruence.
  - destruct H as [_ H]. induction (zv_all z) as [|it tl IH]; [reflexivity|]. cbn [filter].
    rewrite (H it (or_introl eq_refl)). f_equal. apply IH. intros it' Hin. apply H. now right.
Qed.

(* over every history of commits, reader acquisitions / releases and cleanings:
   the current version and every version a reader holds are listed in `all` *)
Definition zv_inv (z : zversions) : Prop :=
  In (zv_cur z) (zv_all z) /\ forall slot it, In (slot, it) (zv_readers z) -> In it (zv_all z).

Lemma zv_step_inv z o : zv_inv z -> zv_inv (zv_step z o).
Proof.
  intros [Hc Hr]. destruct o as [|slot|slot|]; cbn [zv_step].
  - split; cbn [zv_cur zv_all zv_readers]; [apply in_or_app; right; now left|].
    intros slot it H. apply in_or_app. left. now apply (Hr slot).
  - split; cbn [zv_cur zv_all zv_readers]; [exact Hc|]. intros s it [E|H]; [inversion E; subst; exact Hc|now apply (Hr s)].
  - split; cbn [zv_cur zv_all zv_readers]; [exact Hc|]. intros s it H. apply filter_In in H. now apply (Hr s).
  - split.
    + exact (proj1 (clean_keeps_current z Hc)).
    + intros s it H. cbn [zv_clean fst zv_readers] in H. apply (clean_keeps_held z s it H). now apply (Hr s).
Qed.

Theorem held_versions_never_cleaned : forall os,
  let z := zv_run os in
  In (zv_cur z) (zv_all z) /\ forall slot it, In (slot, it) (zv_readers z) -> In it (zv_all z).
Proof.
  intros os. unfold zv_run.
  assert (H : forall z, zv_inv z -> zv_inv (fold_left zv_step os z)).
  { induction os as [|o tl IH]; intros z Hz; [exact Hz|]. cbn [fold_left]. apply IH. now apply zv_step_inv. }
  apply H. split; [now left|intros ? ? []].
Qed.

(* non-vacuity, and a warning for whoever gives clean_versions a caller: the
   returned "greatest cleaned version" can exceed a version that is still held,
   so it is not a bound below which stored data may be dropped *)
Example ex_clean :
  let z := zv_run [VAcquire 0; VCommit; VAcquire 1; VCommit; VRelease 1] in
  zv_all z = [(0, 0); (1, 1); (2, 2)] /\
  zv_clean z = (mkzv (2, 2) [(0, 0); (2, 2)] 3 [(0, (0, 0))], Some 1) /\
  In (0, (0, 0)) (zv_readers z).
Proof. repeat split; try reflexivity. now left. Qed.

(* two dead versions at once: the greater one is returned *)
Example ex_clean_max :
  snd (zv_clean (zv_run [VAcquire 0; VCommit; VAcquire 1; VCommit; VAcquire 2; VCommit; VRelease 1; VRelease 2])) = Some 2 /\
  snd (zv_clean (zv_run [VCommit; VCommit; VCommit])) = Some 2.
Proof. split; reflexivity. Qed.
