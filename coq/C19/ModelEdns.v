(* C19 model, part 4: the EDNS record of the new API
     new/edns/mod.rs   impl SplitBytes / BuildBytes for EdnsRecord<D> (D = &Opt)
     new/rdata/edns.rs Opt::parse_bytes_by_ref (option framing)
     new/base/wire/size_prefixed.rs SizePrefixed<U16, _>::split_bytes
   Field order, the `0 0 41` prefix and the field widths are T1 items. *)
From Coq Require Import NArith List Bool.
From DV Require Import Base.Outcome Base.Bytes C19.Gen C19.Model.
Import ListNotations.
Local Open Scope N_scope.

(* Opt::parse_bytes_by_ref: the while loop over (code, size, data) *)
Fixpoint nopt_walk (fuel : nat) (b : bytes) (offset : N) : bool :=
  match fuel with
  | O => false
  | S f =>
      if len b <=? offset then true
      else
        let o2 := offset + 2 in
        if len b <? o2 + 2 then false                 (* bytes.get(offset..offset + 2) *)
        else
          let size := be_val (firstn 2 (skipn (N.to_nat o2) b)) in
          let o4 := o2 + 2 in
          if len b <? o4 + size then false            (* bytes.get(offset..offset + size) *)
          else nopt_walk f b (o4 + size)
  end.
Definition nopt_ok (b : bytes) : bool :=
  if edns_opt_max <? len b then false else nopt_walk (S (length b)) b 0.

Record edns := mkE { e_udp : N; e_ext : N; e_ver : N; e_flags : N; e_data : bytes }.

(* take k octets from the front *)
Definition take_k (k : nat) (b : bytes) : option (bytes * bytes) :=
  if Nat.ltb (length b) k then None else Some (firstn k b, skipn k b).

(* the four fixed fields behind the prefix, in the order the source reads them *)
Definition edns_fields (b : bytes) : option (N * N * N * N * bytes) :=
  match take_k 2 b with None => None | Some (f0, r0) =>
  match take_k 1 r0 with None => None | Some (f1, r1) =>
  match take_k 1 r1 with None => None | Some (f2, r2) =>
  match take_k 2 r2 with None => None | Some (f3, r3) =>
    Some (be_val f0, be_val f1, be_val f2, be_val f3, r3)
  end end end end.

(* EdnsRecord::<&Opt>::split_bytes *)
Definition nedns_split (b : bytes) : outcome (edns * bytes) :=
  match take_k 3 b with
  | None => Err E_PARSE
  | Some (pre, rest) =>
      if negb (forallb (fun p => fst p =? snd p) (combine pre edns_prefix)) then Err E_PARSE else
      match edns_fields rest with
      | None => Err E_PARSE
      | Some (a, b1, b2, fl, r) =>
          match take_k 2 r with
          | None => Err E_PARSE
          | Some (sz, r') =>
              match take_k (N.to_nat (be_val sz)) r' with
              | None => Err E_PARSE
              | Some (data, rest') =>
                  if nopt_ok data
                  then Ok (if edns_ext_before_version then mkE a b1 b2 fl data else mkE a b2 b1 fl data, rest')
                  else Err E_PARSE
              end
          end
      end
  end.

(* EdnsRecord::build_bytes into a buffer that is large enough (None: the data
   does not fit the 16-bit size prefix) *)
Definition nedns_build (e : edns) : option bytes :=
  if 65535 <? len (e_data e) then None else
  Some (edns_prefix ++ [e_udp e / 256; e_udp e mod 256] ++
        (if edns_ext_before_version then [e_ext e; e_ver e] else [e_ver e; e_ext e]) ++
        [e_flags e / 256; e_flags e mod 256] ++
        [len (e_data e) / 256; len (e_data e) mod 256] ++ e_data e).

Definition c19_edns (b : bytes) : outcome (edns * bytes) := nedns_split b.
