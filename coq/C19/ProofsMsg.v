(* C19 proofs, part 12: MessageParser enforces the header counts, and every item
   it yields is an item the old codec (C01's question_parse / record_parse)
   reads at the same position with the same fields. *)
From Coq Require Import NArith List Bool Lia ZArith.
From Coq Require Import ZifyN ZifyBool ZifyNat.
From DV Require Import Base.Outcome Base.Bytes Base.Names Base.PName C19.Gen C19.Model C19.ModelEdns C19.ModelMsg
  C19.ProofsOld C19.ProofsNew C19.ProofsAgree C19.ProofsItems C01.Model.
Import ListNotations.
Local Open Scope N_scope.
Ltac Zify.zify_post_hook ::= Z.div_mod_to_equations.

(* ---- the counts are enforced ---- *)
Lemma mp_section_count n : forall c sec off acc acc' off' ok,
  mp_section n c sec off acc = Ok (acc', off', ok) ->
  (ok = true -> length acc' = (length acc + n)%nat) /\ (length acc' <= length acc + n)%nat /\
  (ok = false -> (length acc' < length acc + n)%nat).
Proof.
  induction n as [|n IH]; intros c sec off acc acc' off' ok H; cbn [mp_section] in H.
  - inversion H; subst. repeat split; intros; try lia; discriminate.
  - destruct (mp_item c sec off) as [[it o1]| | |]; try discriminate H.
    + apply IH in H. cbn [length] in H. destruct H as (A & B & C).
      split; [intros Q; rewrite (A Q); lia|]. split; [lia|]. intros Q. specialize (C Q). lia.
    + inversion H; subst. repeat split; intros; try lia; discriminate.
Qed.

Lemma mp_sections_count secs : forall c off acc items off' ok,
  mp_sections secs c off acc = Ok (items, off', ok) ->
  let total := fold_right (fun s a => (N.to_nat (snd s) + a)%nat) 0%nat secs in
  (ok = true -> length items = (length acc + total)%nat) /\
  (ok = false -> (length items < length acc + total)%nat).
Proof.
  induction secs as [|[sec cnt] t IH]; intros c off acc items off' ok H; cbn [mp_sections] in H.
  - inversion H; subst. cbn. rewrite rev_length. split; intros; [lia|discriminate].
  - destruct (mp_section (N.to_nat cnt) c sec off acc) as [[[acc1 off1] ok1]| | |] eqn:S; cbn [bind] in H; try discriminate H.
    apply mp_section_count in S. destruct S as (A & B & C). cbn [fold_right snd].
    destruct ok1.
    + apply IH in H. cbv zeta in H. destruct H as [H1 H2]. rewrite (A eq_refl) in H1, H2.
      split; intros Q; [rewrite (H1 Q)|specialize (H2 Q)]; lia.
    + inversion H; subst. rewrite rev_length. specialize (C eq_refl).
      split; intros Q; [discriminate Q|]. lia.
Qed.

Lemma some_inj {A} (x y : A) : Some x = Some y -> x = y.
Proof. congruence. Qed.

(* MessageParser runs to completion without an error item exactly when it has
   yielded as many items as the four header counts announce: a message that
   announces more than it holds is never read to completion, also when its
   octets end on an item boundary (seeded change C19-r3-1) *)
Theorem mp_counts_enforced m items off ok : mp_run m = Some (Ok (items, off, ok)) ->
  let announced := (N.to_nat (u16_of m 4) + N.to_nat (u16_of m 6) + N.to_nat (u16_of m 8) + N.to_nat (u16_of m 10))%nat in
  (ok = true <-> length items = announced) /\ (length items <= announced)%nat.
Proof.
  unfold mp_run. destruct (Nat.ltb (length m) 12); [discriminate|]. intros H. apply some_inj in H.
  apply mp_sections_count in H. cbn [fold_right snd length] in H. destruct H as [H1 H2]. cbv zeta.
  destruct ok.
  - specialize (H1 eq_refl). split; [split; intros; [lia|reflexivity]|lia].
  - specialize (H2 eq_refl). split; [split; intros Q; [discriminate Q|lia]|lia].
Qed.

Example counts_example :
  (* header QD=1 AN=2, one question and ONE record of type 65280, cut on the item boundary *)
  let m := [0;42;129;128; 0;1; 0;2; 0;0; 0;0] ++ [3;119;119;119;0; 0;1;0;1] ++ [192;12; 255;0; 0;1; 0;0;14;16; 0;4; 127;0;0;1] in
  exists items, mp_run m = Some (Ok (items, 25, false)) /\ length items = 2%nat.
Proof. eexists. split; vm_compute; reflexivity. Qed.

(* ---- every question / record item MessageParser yields is what the old codec
   reads at the same position (C01's question_parse / record_parse) ---- *)
Definition old_reads (m : bytes) (pos : N) (it : mitem) (e : N) : Prop :=
  match it with
  | MQ w ty cl => exists q n, question_parse m pos (mlen m) = Ok q /\ pname_labels m (q_name q) = Ok (n, true) /\
                    w = wire_abs n /\ q_type q = ty /\ q_class q = cl /\ q_end q = e
  | MR _ w ty cl ttl rdlen => exists r n, record_parse m pos (mlen m) = Ok r /\ pname_labels m (rr_owner r) = Ok (n, true) /\
                    w = wire_abs n /\ rr_type r = ty /\ rr_class r = cl /\ rr_ttl r = ttl /\ rr_rdlen r = rdlen /\ rr_end r = e
  | ME _ => True
  end.

Theorem mp_item_new_to_old (h c : bytes) : length h = 12%nat -> wf_bytes c ->
  forall sec off it off', mp_item c sec off = Ok (it, off') -> old_reads (h ++ c) (12 + off) it (12 + off').
Proof.
  intros Hh Hwf sec off it off' H. unfold mp_item in H.
  destruct (sec =? 0).
  - destruct (new_question c off) as [[[[w ty] cl] e]| | |] eqn:Q; cbn [bind] in H; try discriminate H.
    inversion H; subst. cbn [old_reads].
    destruct (question_new_to_old h c Hh Hwf _ _ _ _ _ Q) as (q & n & A). exists q, n. tauto.
  - destruct ((sec =? mp_edns_section) && starts_with (skipn (N.to_nat off) c) edns_prefix).
    + destruct (nedns_split (skipn (N.to_nat off) c)) as [[e rest]| | |]; cbn [bind] in H; try discriminate H.
      inversion H; subst. exact I.
    + destruct (new_record c off) as [[[[[[w ty] cl] ttl] d] e]| | |] eqn:R; cbn [bind] in H; try discriminate H.
      destruct ((ty =? 41) && negb (nopt_ok (firstn (N.to_nat (e - d)) (skipn (N.to_nat d) c)))); [discriminate H|].
      inversion H; subst. cbn [old_reads].
      destruct (record_new_to_old h c Hh Hwf _ _ _ _ _ _ _ R) as (r & n & A1 & A2 & A3 & A4 & A5 & A6 & A7 & A8 & A9).
      exists r, n. repeat split; auto.
Qed.
