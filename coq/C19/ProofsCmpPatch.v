(* C19 proofs, part 16: the record builder of the new API writes the owner name,
   the fixed fields, RESERVES the two octets of the RDATA size, builds the RDATA
   through the compressor and only then fills in the size
   (Record::build_in_message, SizePrefixed::build_in_message).  The reserved
   octets never meet a compressor entry or the two octets behind one, so the
   message with the size filled in is octet for octet the message that would have
   been built had the size been there from the start - to which the soundness
   theorems of ProofsCmpInv apply. *)
From Coq Require Import NArith List Bool Lia ZArith.
From Coq Require Import ZifyN ZifyBool ZifyNat.
From DV Require Import Base.Outcome Base.Bytes Base.Names Base.PName C19.Gen C19.Model C19.ModelCmp
  C19.ProofsOld C19.ProofsNew C19.ProofsAgree C19.ProofsCmpSound C19.ProofsCmpInv C19.ProofsCmpRegions.
Import ListNotations.
Local Open Scope N_scope.
Ltac Zify.zify_post_hook ::= Z.div_mod_to_equations.

(* no used slot, with the two octets behind it, meets [a, a + k) *)
Definition Dis (st : cstate) (a k : N) : Prop :=
  length (cs_pos st) = length (cs_len st) /\
  forall i, nth i (cs_len st) 0 <> 0 ->
    nth i (cs_pos st) 0 + nth i (cs_len st) 0 + 2 <= a \/ a + k <= nth i (cs_pos st) 0.

Lemma compress_loop_slots fuel : forall st c name parent poff hash r,
  compress_loop fuel st c name parent poff hash = Ok r ->
  cs_pos (fst (fst (fst (fst r)))) = cs_pos st /\ cs_len (fst (fst (fst (fst r)))) = cs_len st.
Proof.
  induction fuel as [|fuel IH]; intros st c name parent poff hash r H; [discriminate H|].
  cbn [compress_loop] in H. destruct name as [|x nm]; [inversion H; auto|].
  destruct (lookup_from 32 0 st c (x :: nm) parent poff hash) as [|i rest h p|s]; [inversion H; auto| |discriminate H].
  destruct (cn_range_check && cmp_ge cn_range_ge (p + cn_range_add) cn_range_bound); [inversion H; auto|].
  apply IH in H. destruct H as [H1 H2]. rewrite H1, H2. destruct (cmp_lt _ _ _); auto.
Qed.

Local Opaque compress_loop lookup_from last_label hash_label first_min.

(* a push keeps the reserved range free: a new slot starts at the end of the contents *)
Lemma build_name_dis st c w bs st' a k : Dis st a k -> a + k <= len c ->
  build_name st c w = Ok (bs, st') -> Dis st' a k.
Proof.
  intros [W D] Hc H. unfold build_name in H.
  destruct (compress_name st c w) as [[res st2]| | |] eqn:EC; cbn [bind] in H; try discriminate H.
  assert (st' = st2) by (destruct res as [[rest addr]|]; [destruct (65535 <? addr + bim_ptr_add); [discriminate H|]|]; inversion H; reflexivity).
  subst st'. clear H. unfold compress_name in EC.
  destruct (firstn (length w - 1) w) as [|x nm]; [inversion EC; subst; split; assumption|].
  destruct (last_label (x :: nm)) as [lab| | |]; cbn [bind] in EC; try discriminate EC.
  destruct (compress_loop (S (length (x :: nm))) st c (x :: nm) cn_no_parent None (hash_label lab)) as [r| | |] eqn:EL; cbn [bind] in EC; try discriminate EC.
  destruct (compress_loop_slots _ _ _ _ _ _ _ _ EL) as [P1 P2].
  destruct r as [[[[st1 name'] parent] poff] hash]. cbn [fst] in P1, P2.
  assert (D1 : Dis st1 a k) by (split; [rewrite P1, P2; exact W|intros i; rewrite P1, P2; apply D]).
  change cn_reg_strict with true in EC. change cn_reg_add with 12 in EC. change cn_reg_bound with 16384 in EC. unfold cmp_lt in EC.
  destruct name' as [|y nm']; [inversion EC; subst; exact D1|].
  destruct (N.ltb_spec (len c + 12) 16384) as [Hr|Hr]; [|inversion EC; subst; exact D1].
  inversion EC; subst st2. clear EC. destruct D1 as [W1 D1].
  split; [cbn [cs_pos cs_len]; rewrite !set_nth_length; exact W1|].
  intros i. cbn [cs_pos cs_len]. rewrite !nth_set_nth, <- W1.
  destruct ((i =? first_min (cs_use st1))%nat && (first_min (cs_use st1) <? length (cs_pos st1))%nat).
  - intros _. right. rewrite N.mod_small by lia. exact Hc.
  - apply D1.
Qed.

Lemma build_name_patch st A X Y B w : length X = length Y -> Dis st (len A) (len X) ->
  build_name st (A ++ X ++ B) w = build_name st (A ++ Y ++ B) w.
Proof.
  intros HXY [_ D]. unfold build_name. rewrite (patch_invariant st A X Y B w HXY D). reflexivity.
Qed.

(* everything built behind the reserved octets X is the same whatever X holds *)
Lemma build_items_patch l : forall st A X Y B r, length X = length Y -> Dis st (len A) (len X) ->
  build_items st (A ++ X ++ B) l = Ok r ->
  exists B', r = A ++ X ++ B' /\ build_items st (A ++ Y ++ B) l = Ok (A ++ Y ++ B').
Proof.
  induction l as [|[n|b] t IH]; intros st A X Y B r HXY HD H; cbn [build_items] in *.
  - inversion H; subst. eauto.
  - rewrite <- (build_name_patch st A X Y B _ HXY HD).
    destruct (build_name st (A ++ X ++ B) (wire_abs n)) as [[bs st1]| | |] eqn:BN; cbn [bind] in *; try discriminate H.
    assert (HD1 : Dis st1 (len A) (len X)).
    { eapply build_name_dis; [exact HD| |exact BN]. unfold len. rewrite !app_length. lia. }
    replace ((A ++ X ++ B) ++ bs) with (A ++ X ++ (B ++ bs)) in H by (rewrite <- !app_assoc; reflexivity).
    replace ((A ++ Y ++ B) ++ bs) with (A ++ Y ++ (B ++ bs)) by (rewrite <- !app_assoc; reflexivity).
    eapply IH; eauto.
  - replace ((A ++ X ++ B) ++ b) with (A ++ X ++ (B ++ b)) in H by (rewrite <- !app_assoc; reflexivity).
    replace ((A ++ Y ++ B) ++ b) with (A ++ Y ++ (B ++ b)) by (rewrite <- !app_assoc; reflexivity).
    eapply IH; eauto.
Qed.

(* ---- the record builder ----
   Record::build_in_message: owner name through the compressor, the fixed
   octets (type, class, TTL), then SizePrefixed: the two octets at data_start - 2
   are left as they are in the buffer (`stale`), the RDATA items are built behind
   them, and the size is written over them at the end; a size that does not fit
   16 bits is a TruncationError. *)
Definition E_TRUNC : N := 1.
Definition patch_size (m : bytes) (q size : N) : bytes :=
  firstn (N.to_nat q) m ++ [size / 256; size mod 256] ++ skipn (N.to_nat q + 2) m.

Definition build_record (st : cstate) (c : bytes) (owner : name) (fixed stale : bytes) (rd : list item)
  : outcome bytes :=
  do r <- build_name st c (wire_abs owner);
  let '(bs, st1) := r in
  let A := c ++ bs ++ fixed in
  do m <- build_items st1 (A ++ stale) rd;
  let size := len m - (len A + 2) in
  if 65535 <? size then Err E_TRUNC else Ok (patch_size m (len A) size).

(* the hypothesis of patch_invariant, derived: when the size field is reserved,
   every compressor entry and the two octets behind it lie in front of it *)
Theorem record_reserve_disjoint (h : bytes) (Hh : length h = 12%nat) st c owner bs st1 fixed :
  Inv st c -> valid_abs owner -> fixed <> [] ->
  build_name st c (wire_abs owner) = Ok (bs, st1) ->
  Dis st1 (len (c ++ bs ++ fixed)) 2.
Proof.
  intros HI [Hv Hl] Hf BN.
  destruct (build_name_sound h Hh st c owner bs st1 HI Hv Hl BN) as (HI1 & _ & _).
  split; [apply HI1|]. intros i Hi. left.
  pose proof (Inv_extent st1 (c ++ bs) i HI1 Hi) as HE. unfold ext_end in HE.
  assert (1 <= len fixed) by (destruct fixed; [congruence|unfold len; cbn [length]; lia]).
  rewrite app_assoc. unfold len in *. rewrite (app_length (c ++ bs)).
  destruct (nth i (cs_par st1) 0 =? 64); lia.
Qed.

Lemma patch_size_at A X B s : length X = 2%nat ->
  patch_size (A ++ X ++ B) (len A) s = A ++ [s / 256; s mod 256] ++ B.
Proof.
  intros HX. unfold patch_size, len. rewrite Nat2N.id.
  rewrite firstn_app, firstn_all, Nat.sub_diag, firstn_O, app_nil_r.
  replace (length A + 2)%nat with (length (A ++ X)) by (rewrite app_length; lia).
  replace (A ++ X ++ B) with ((A ++ X) ++ B) by (rewrite <- app_assoc; reflexivity).
  rewrite skipn_app, skipn_all, Nat.sub_diag, skipn_O. reflexivity.
Qed.

(* the record with the size filled in is the message built with the size octets
   in place from the start; every name in it reads back *)
Theorem record_patched_sound (h : bytes) (Hh : length h = 12%nat) st c owner fixed stale rd m :
  Inv st c -> wf_bytes c -> valid_abs owner -> wf_bytes fixed -> fixed <> [] -> length stale = 2%nat ->
  Forall item_ok rd ->
  build_record st c owner fixed stale rd = Ok m ->
  exists hi lo,
    build_items st c (IName owner :: IRaw fixed :: IRaw [hi; lo] :: rd) = Ok m /\
    (exists bs B, m = c ++ bs ++ fixed ++ [hi; lo] ++ B /\ hi * 256 + lo = len B /\ hi < 256 /\ lo < 256) /\
    wf_bytes m /\
    items_read_back h m (len c) (IName owner :: IRaw fixed :: IRaw [hi; lo] :: rd).
Proof.
  intros HI Hwc Hvo Hwf Hf Hs Hrd H. unfold build_record in H.
  destruct (build_name st c (wire_abs owner)) as [[bs st1]| | |] eqn:BN; cbn [bind] in H; try discriminate H.
  pose proof (record_reserve_disjoint h Hh st c owner bs st1 fixed HI Hvo Hf BN) as HD.
  set (A := c ++ bs ++ fixed) in *.
  destruct (build_items st1 (A ++ stale) rd) as [m0| | |] eqn:BI; cbn [bind] in H; try discriminate H.
  set (size := len m0 - (len A + 2)) in *.
  destruct (N.ltb_spec 65535 size) as [Hsz|Hsz]; [discriminate H|]. inversion H; subst m. clear H.
  assert (HD' : Dis st1 (len A) (len stale)) by (unfold len at 2; rewrite Hs; exact HD).
  replace (A ++ stale) with (A ++ stale ++ []) in BI by (rewrite app_nil_r; reflexivity).
  destruct (build_items_patch rd st1 A stale [size / 256; size mod 256] [] m0 Hs HD' BI) as (B' & -> & BI').
  rewrite (patch_size_at A stale B' size Hs).
  assert (Esz : size = len B').
  { unfold size, len. rewrite !app_length, Hs. lia. }
  exists (size / 256), (size mod 256).
  assert (Hhi : size / 256 < 256) by lia. assert (Hlo : size mod 256 < 256) by lia.
  assert (BIf : build_items st c (IName owner :: IRaw fixed :: IRaw [size / 256; size mod 256] :: rd)
                = Ok (A ++ [size / 256; size mod 256] ++ B')).
  { cbn [build_items]. rewrite BN. cbn [bind]. rewrite <- BI'. unfold A. f_equal.
    rewrite <- !app_assoc. cbn [app]. reflexivity. }
  split; [exact BIf|].
  split. { exists bs, B'. split; [unfold A; rewrite <- !app_assoc; reflexivity|]. rewrite <- Esz. lia. }
  assert (Hok : Forall item_ok (IName owner :: IRaw fixed :: IRaw [size / 256; size mod 256] :: rd)).
  { constructor; [exact Hvo|]. constructor; [exact Hwf|]. constructor; [|exact Hrd].
    constructor; [exact Hhi|]. constructor; [exact Hlo|constructor]. }
  destruct (new_compressor_sound_items h Hh _ st c _ HI Hwc Hok BIf) as (_ & Hw & Hrb).
  split; [exact Hw|exact (Hrb Hw)].
Qed.

(* and every later push sees the patched message exactly as it saw the stale one *)
Theorem record_patch_invisible st A X Y B w bs st' : length X = length Y ->
  Dis st (len A) (len X) ->
  build_name st (A ++ X ++ B) w = Ok (bs, st') ->
  build_name st (A ++ Y ++ B) w = Ok (bs, st') /\ Dis st' (len A) (len X).
Proof.
  intros HXY HD H. split; [rewrite <- (build_name_patch st A X Y B w HXY HD); exact H|].
  eapply build_name_dis; [exact HD| |exact H]. unfold len. rewrite !app_length. lia.
Qed.

(* non-vacuity: "a.b" IN MX 5 a.b - the exchange compresses to a pointer at the
   owner, the stale octets 7 7 become the size 0 4 *)
Definition ex_owner : name := [[97]; [98]].
Definition ex_fixed : bytes := [0; 15; 0; 1; 0; 0; 0; 60].
Example record_example :
  build_record cs_new [] ex_owner ex_fixed [7; 7] [IRaw [0; 5]; IName ex_owner]
  = Ok ([1; 97; 1; 98; 0] ++ ex_fixed ++ [0; 4] ++ [0; 5; 192; 12]).
Proof. vm_compute. reflexivity. Qed.

Lemma ex_owner_valid : valid_abs ex_owner.
Proof. apply valid_relb_spec. reflexivity. Qed.

Example record_example_reads_back : exists hi lo,
  items_read_back (repeat 0 12) ([1; 97; 1; 98; 0] ++ ex_fixed ++ [0; 4] ++ [0; 5; 192; 12]) 0
    [IName ex_owner; IRaw ex_fixed; IRaw [hi; lo]; IRaw [0; 5]; IName ex_owner].
Proof.
  assert (Hrd : Forall item_ok [IRaw [0; 5]; IName ex_owner]).
  { constructor; [apply bytesb_spec; reflexivity|]. constructor; [exact ex_owner_valid|constructor]. }
  destruct (record_patched_sound (repeat 0 12) eq_refl cs_new [] ex_owner ex_fixed [7; 7] _ _
              (Inv_new []) (Forall_nil _) ex_owner_valid ltac:(apply bytesb_spec; reflexivity)
              ltac:(discriminate) eq_refl Hrd record_example) as (hi & lo & _ & _ & _ & R).
  exists hi, lo. exact R.
Qed.

Example record_example_disjoint : exists bs st1,
  build_name cs_new [] (wire_abs ex_owner) = Ok (bs, st1) /\ Dis st1 (len ([] ++ bs ++ ex_fixed)) 2 /\
  exists i, nth i (cs_len st1) 0 <> 0.
Proof.
  destruct (build_name cs_new [] (wire_abs ex_owner)) as [[bs st1]| | |] eqn:E; try (vm_compute in E; discriminate E).
  exists bs, st1. split; [reflexivity|].
  split; [exact (record_reserve_disjoint (repeat 0 12) eq_refl cs_new [] ex_owner bs st1 ex_fixed (Inv_new []) ex_owner_valid ltac:(discriminate) E)|].
  vm_compute in E. inversion E; subst. exists (first_min (cs_use cs_new)). vm_compute. discriminate.
Qed.
