(* C19 proofs, part 7: RevNameBuf::{split,parse}_message_bytes run in lockstep
   with the NameBuf versions: same accept/reject, same end, and the reversed
   buffer holds the same labels in reverse order behind the root label.  Hence
   the reversed-name reader refines the same path semantics (dpath R_new). *)
From Coq Require Import NArith List Bool Lia ZArith.
From Coq Require Import ZifyN ZifyBool ZifyNat.
From DV Require Import Base.Outcome Base.Bytes Base.Names Base.PName C19.Gen C19.Model
  C19.ProofsOld C19.ProofsNew C19.ProofsAgree.
Import ListNotations.
Local Open Scope N_scope.
Ltac Zify.zify_post_hook ::= Z.div_mod_to_equations.

(* the labels last-to-first, each in wire form *)
Definition rwire (ls : name) : bytes := concat (map wire_label (rev ls)).
Definition rev_wire (ls : name) : bytes := 0 :: rwire ls.

Lemma rwire_snoc ls l : rwire (ls ++ [l]) = wire_label l ++ rwire ls.
Proof. unfold rwire. rewrite rev_app_distr. reflexivity. Qed.

Lemma rwire_app a b : rwire (a ++ b) = rwire b ++ rwire a.
Proof. unfold rwire. rewrite rev_app_distr, map_app, concat_app. reflexivity. Qed.

Lemma rwire_length ls : length (rwire ls) = length (wire_rel ls).
Proof.
  induction ls as [|l ls IH] using rev_ind; [reflexivity|].
  rewrite rwire_snoc, wire_rel_app, !app_length, IH. unfold wire_rel. cbn [map concat]. rewrite app_nil_r. lia.
Qed.

Lemma rb_segment_cons f b rest buf :
  rb_segment (S f) (b :: rest) buf =
    if b =? 0 then do buf' <- rb_prepend buf [0]; Ok (None, rest, buf')
    else if b <? 64 then
      if len (b :: rest) <? 1 + b then Err E_PARSE
      else if 255 - len buf <? 2 + b then Err E_PARSE
      else do buf' <- rb_prepend buf (firstn (N.to_nat (1 + b)) (b :: rest));
           rb_segment f (skipn (N.to_nat (1 + b)) (b :: rest)) buf'
    else match rest with
         | lo :: rest' => if 192 <=? b then Ok (Some (N.land (b * 256 + lo) 16383), rest', buf) else Err E_PARSE
         | [] => Err E_PARSE
         end.
Proof. reflexivity. Qed.

Lemma rb_follow_some f hdr ge c p old_start buf :
  rb_follow (S f) hdr ge c (Some p) old_start buf =
    if p <? hdr then Err E_PARSE else
    if cmp_ge ge (p - hdr) old_start then Err E_PARSE else
    match get_from c (p - hdr) with
    | None => Err E_PARSE
    | Some bs => do r <- rb_segment (S (length bs)) bs buf;
                 let '(ptr', _, buf') := r in rb_follow f hdr ge c ptr' (p - hdr) buf'
    end.
Proof. reflexivity. Qed.

Definition term_of (p : option N) : bytes := match p with None => [0] | Some _ => [] end.

(* one segment, both buffers *)
Definition seg_rel (nb rb : bytes) (x : outcome (option N * bytes * bytes)) (y : outcome (option N * bytes * bytes)) : Prop :=
  match x, y with
  | Ok (p1, r1, b1), Ok (p2, r2, b2) =>
      p1 = p2 /\ r1 = r2 /\ exists ls, b1 = nb ++ wire_rel ls ++ term_of p1 /\ b2 = term_of p1 ++ rwire ls ++ rb /\
                                       (p1 <> None -> len b1 < 255)
  | Err _, Err _ => True
  | OutOfFuel, OutOfFuel => True
  | _, _ => False
  end.

Lemma seg_lockstep fuel : forall bs nb rb, len nb = len rb -> len nb < 255 ->
  seg_rel nb rb (nb_segment fuel bs nb) (rb_segment fuel bs rb).
Proof.
  induction fuel as [|fuel IH]; intros bs nb rb Hl Hb; [exact I|].
  destruct bs as [|b rest]; [exact I|].
  rewrite nb_segment_cons, rb_segment_cons.
  destruct (N.eqb_spec b 0).
  - unfold nb_append, rb_prepend. change rb_empty_offset with 255. change (len [0]) with 1.
    destruct (N.ltb_spec 255 (len nb + 1)); [lia|]. destruct (N.ltb_spec (255 - len rb) 1); [lia|].
    cbn [bind seg_rel]. split; [reflexivity|]. split; [reflexivity|]. exists [].
    cbn. split; [reflexivity|]. split; [reflexivity|]. intros Q; contradiction.
  - destruct (N.ltb_spec b 64).
    + destruct (N.ltb_spec (len (b :: rest)) (1 + b)) as [|Hs]; [exact I|].
      destruct (N.ltb_spec 255 (len nb)); [lia|]. rewrite <- Hl.
      destruct (N.ltb_spec (255 - len nb) (2 + b)) as [|Hc]; [exact I|].
      unfold nb_append, rb_prepend. change rb_empty_offset with 255.
      set (k := N.to_nat (1 + b)). set (lab := firstn k (b :: rest)).
      assert (Hlab : len lab = 1 + b) by (unfold lab, k, len in *; rewrite firstn_length; lia).
      rewrite Hlab, <- Hl.
      destruct (N.ltb_spec 255 (len nb + (1 + b))); [lia|]. destruct (N.ltb_spec (255 - len nb) (1 + b)); [lia|].
      cbn [bind].
      assert (Hwl : exists l, lab = wire_label l).
      { exists (firstn (N.to_nat b) rest). unfold lab, k, wire_label.
        replace (N.to_nat (1 + b)) with (S (N.to_nat b)) by lia. cbn [firstn].
        rewrite firstn_length. unfold len in Hs. cbn [length] in Hs.
        replace (Init.Nat.min (N.to_nat b) (length rest)) with (N.to_nat b) by lia. rewrite N2Nat.id. reflexivity. }
      destruct Hwl as (l & Hwl).
      specialize (IH (skipn k (b :: rest)) (nb ++ lab) (lab ++ rb)).
      assert (HA1 : len (nb ++ lab) = len (lab ++ rb)) by (unfold len in *; rewrite !app_length; lia).
      assert (HA2 : len (nb ++ lab) < 255) by (unfold len in *; rewrite app_length; lia).
      specialize (IH HA1 HA2). unfold seg_rel in *.
      destruct (nb_segment fuel (skipn k (b :: rest)) (nb ++ lab)) as [[[p1 r1] b1]| | |];
        destruct (rb_segment fuel (skipn k (b :: rest)) (lab ++ rb)) as [[[p2 r2] b2]| | |]; try exact IH; try contradiction.
      destruct IH as (E1 & E2 & ls & Eb1 & Eb2 & Hlt). split; [exact E1|]. split; [exact E2|].
      exists (l :: ls). rewrite Eb1, Eb2, Hwl. split.
      { change (wire_rel (l :: ls)) with (wire_label l ++ wire_rel ls). rewrite <- !app_assoc. reflexivity. }
      split; [|rewrite Eb1, Hwl in Hlt; exact Hlt].
      change (l :: ls) with ([l] ++ ls). rewrite rwire_app.
      replace (rwire [l]) with (wire_label l) by (unfold rwire; cbn [rev map concat app]; rewrite app_nil_r; reflexivity).
      rewrite <- !app_assoc. reflexivity.
    + destruct rest as [|lo rest']; [exact I|]. destruct (N.leb_spec 192 b); [|exact I].
      cbn [seg_rel]. split; [reflexivity|]. split; [reflexivity|]. exists []. cbn. rewrite app_nil_r.
      split; [reflexivity|]. split; [reflexivity|]. intros _. exact Hb.
Qed.

Definition fol_rel (nb rb : bytes) (ptr : option N) (x y : outcome bytes) : Prop :=
  match x, y with
  | Ok w, Ok rw => exists ls t, w = nb ++ wire_rel ls ++ t /\ rw = t ++ rwire ls ++ rb /\
                                (ptr <> None -> t = [0]) /\ (ptr = None -> ls = [] /\ t = [])
  | Err _, Err _ => True
  | OutOfFuel, OutOfFuel => True
  | _, _ => False
  end.

Lemma follow_lockstep c ffuel : forall ptr old_start nb rb, len nb = len rb -> (ptr <> None -> len nb < 255) ->
  fol_rel nb rb ptr (nb_follow ffuel 12 true c ptr old_start nb) (rb_follow ffuel 12 true c ptr old_start rb).
Proof.
  induction ffuel as [|ffuel IH]; intros ptr old_start nb rb Hl Hb.
  - destruct ptr; cbn; [exact I|]. exists [], []. cbn. rewrite app_nil_r. repeat split; auto; intros Q; contradiction.
  - destruct ptr as [p|].
    2:{ cbn. exists [], []. cbn. rewrite app_nil_r. repeat split; auto; intros Q; contradiction. }
    rewrite nb_follow_some, rb_follow_some.
    destruct (N.ltb_spec p 12); [exact I|]. destruct (cmp_ge true (p - 12) old_start); [exact I|].
    destruct (get_from c (p - 12)) as [bs|]; [|exact I].
    pose proof (seg_lockstep (S (length bs)) bs nb rb Hl (Hb ltac:(discriminate))) as SL. unfold seg_rel in SL.
    destruct (nb_segment (S (length bs)) bs nb) as [[[p1 r1] b1]| | |];
      destruct (rb_segment (S (length bs)) bs rb) as [[[p2 r2] b2]| | |]; try exact SL; try contradiction.
    destruct SL as (<- & <- & ls & Eb1 & Eb2 & Hlt). cbn [bind].
    assert (Hl' : len b1 = len b2).
    { rewrite Eb1, Eb2. unfold len in *. rewrite !app_length, rwire_length. lia. }
    specialize (IH p1 (p - 12) b1 b2 Hl' Hlt). unfold fol_rel in *.
    destruct (nb_follow ffuel 12 true c p1 (p - 12) b1) as [w| | |];
      destruct (rb_follow ffuel 12 true c p1 (p - 12) b2) as [rw| | |]; try exact IH; try contradiction.
    destruct IH as (ls2 & t & Ew & Erw & Ht1 & Ht2).
    destruct p1 as [p1|].
    + specialize (Ht1 ltac:(discriminate)). subst t. cbn [term_of] in Eb1, Eb2. rewrite app_nil_r in Eb1.
      exists (ls ++ ls2), [0]. rewrite Ew, Erw, Eb1, Eb2. cbn [app]. rewrite wire_rel_app, rwire_app, <- !app_assoc.
      split; [reflexivity|]. split; [reflexivity|]. split; [auto|intros Q; discriminate Q].
    + destruct (Ht2 eq_refl) as [-> ->]. cbn [term_of] in Eb1, Eb2.
      exists ls, [0]. rewrite Ew, Erw, Eb1, Eb2. cbn [wire_rel map concat rwire rev app]. rewrite ?app_nil_r, <- ?app_assoc.
      split; [reflexivity|]. split; [reflexivity|]. split; [auto|intros Q; discriminate Q].
Qed.

Definition top_rel (x y : outcome (bytes * N)) : Prop :=
  match x, y with
  | Ok (w, e), Ok (rw, e') => e = e' /\ exists ls, w = wire_abs ls /\ rw = rev_wire ls
  | Err _, Err _ => True
  | _, _ => False
  end.

Theorem rev_split_lockstep c start : top_rel (new_split c start) (rev_split c start).
Proof.
  pose proof (new_split_total c start) as T.
  unfold new_split, rev_split in *. destruct (get_from c start) as [bs|]; [|exact I].
  pose proof (seg_lockstep (S (length bs)) bs [] [] eq_refl ltac:(cbn; lia)) as SL. unfold seg_rel in SL.
  destruct (nb_segment (S (length bs)) bs []) as [[[p1 r1] b1]| | |];
    destruct (rb_segment (S (length bs)) bs []) as [[[p2 r2] b2]| | |]; try exact SL; try contradiction.
  destruct SL as (<- & <- & ls & Eb1 & Eb2 & Hlt). cbn [bind] in *.
  destruct (N.ltb_spec (len c) (len r1)); [exact T|].
  change nb_split_hdr with 12 in *. change nb_split_rule_ge with true in *.
  change rb_split_hdr with 12. change rb_split_rule_ge with true.
  assert (Hl' : len b1 = len b2).
  { rewrite Eb1, Eb2. unfold len. rewrite !app_length, rwire_length. cbn [length]. lia. }
  pose proof (follow_lockstep c (follow_fuel start) p1 start b1 b2 Hl' Hlt) as FL. unfold fol_rel in FL.
  destruct (nb_follow (follow_fuel start) 12 true c p1 start b1) as [w| | |];
    destruct (rb_follow (follow_fuel start) 12 true c p1 start b2) as [rw| | |]; cbn [bind top_rel] in *; try exact FL; try contradiction.
  split; [reflexivity|].
  destruct FL as (ls2 & t & Ew & Erw & Ht1 & Ht2).
  destruct p1 as [p1|].
  - specialize (Ht1 ltac:(discriminate)). subst t. cbn [term_of app] in Eb1, Eb2. rewrite app_nil_r in Eb1, Eb2.
    exists (ls ++ ls2). rewrite Ew, Erw, Eb1, Eb2. unfold wire_abs, rev_wire. rewrite wire_rel_app, rwire_app, <- !app_assoc.
    split; reflexivity.
  - destruct (Ht2 eq_refl) as [-> ->]. cbn [term_of app] in Eb1, Eb2.
    exists ls. rewrite Ew, Erw, Eb1, Eb2. unfold wire_abs, rev_wire. cbn [wire_rel map concat rwire rev app]. rewrite ?app_nil_r. split; reflexivity.
Qed.

(* labels are determined by their wire form *)
Lemma app_eq_len {A} (a a' b b' : list A) : a ++ b = a' ++ b' -> length a = length a' -> a = a' /\ b = b'.
Proof.
  revert a'. induction a as [|x a IH]; intros [|y a'] H Hl; try discriminate Hl; [auto|].
  cbn in H. injection H as -> H. injection Hl as Hl. destruct (IH _ H Hl) as [-> ->]. auto.
Qed.

Lemma wire_rel_inj a : forall b, wire_rel a = wire_rel b -> a = b.
Proof.
  induction a as [|l a IH]; intros [|l' b] H; try reflexivity; try discriminate H.
  change (wire_rel (l :: a)) with ((N.of_nat (length l) :: l) ++ wire_rel a) in H.
  change (wire_rel (l' :: b)) with ((N.of_nat (length l') :: l') ++ wire_rel b) in H.
  cbn [app] in H. injection H as H0 H. apply Nat2N.inj in H0.
  destruct (app_eq_len _ _ _ _ H H0) as [-> H']. f_equal. apply IH. exact H'.
Qed.

Lemma wire_abs_inj a b : wire_abs a = wire_abs b -> a = b.
Proof.
  unfold wire_abs. intros H. apply wire_rel_inj.
  apply (f_equal (@rev N)) in H. rewrite !rev_app_distr in H. cbn in H. injection H as H.
  apply (f_equal (@rev N)) in H. rewrite !rev_involutive in H. exact H.
Qed.

(* the reversed-name reader: total, and sound and complete for the same paths *)
Theorem rev_split_total c start : no_panic (rev_split c start).
Proof.
  pose proof (rev_split_lockstep c start) as L. unfold top_rel in L.
  destruct (new_split c start) as [[w e]| | |]; destruct (rev_split c start) as [[rw e']| | |]; try contradiction; exact I.
Qed.

Theorem rev_split_is_path h c : length h = 12%nat -> wf_bytes c -> forall start,
  (forall rw e, rev_split c start = Ok (rw, e) ->
     exists n, rw = rev_wire n /\ dpath R_new (h ++ c) (12 + start) (12 + start) 0 n (12 + e)) /\
  (forall n e, dpath R_new (h ++ c) (12 + start) (12 + start) 0 n e ->
     rev_split c start = Ok (rev_wire n, e - 12)).
Proof.
  intros Hh Hwf start. pose proof (rev_split_lockstep c start) as L. unfold top_rel in L. split.
  - intros rw e H. rewrite H in L.
    destruct (new_split c start) as [[w e0]| | |] eqn:S; try contradiction.
    destruct L as (-> & ls & -> & ->).
    destruct (new_split_sound h c Hh Hwf _ _ _ S) as (n & E & D). apply wire_abs_inj in E. subst ls. eauto.
  - intros n e D. destruct (new_split_complete h c Hh Hwf _ _ _ D) as [S _]. rewrite S in L.
    destruct (rev_split c start) as [[rw e']| | |]; try contradiction.
    destruct L as (<- & ls & E & ->). apply wire_abs_inj in E. subst ls. reflexivity.
Qed.

Example rev_example :
  rev_split [1;97;0;1;98;192;12] 3 = Ok (rev_wire [[98];[97]], 7) /\ rev_wire [[98];[97]] = [0;1;97;1;98].
Proof. vm_compute. auto. Qed.

(* ---- the exact-parse entry points (ParseMessageBytes) ---- *)
Definition top_rel_p (x y : outcome bytes) : Prop :=
  match x, y with
  | Ok w, Ok rw => exists ls, w = wire_abs ls /\ rw = rev_wire ls
  | Err _, Err _ => True
  | _, _ => False
  end.

Theorem rev_parse_lockstep c start : top_rel_p (new_parse c start) (rev_parse c start).
Proof.
  pose proof (new_parse_total c start) as T.
  unfold new_parse, rev_parse in *. destruct (get_from c start) as [bs|]; [|exact I].
  pose proof (seg_lockstep (S (length bs)) bs [] [] eq_refl ltac:(cbn; lia)) as SL. unfold seg_rel in SL.
  destruct (nb_segment (S (length bs)) bs []) as [[[p1 r1] b1]| | |];
    destruct (rb_segment (S (length bs)) bs []) as [[[p2 r2] b2]| | |]; try exact SL; try contradiction.
  destruct SL as (<- & <- & ls & Eb1 & Eb2 & Hlt). cbn [bind] in *.
  destruct r1 as [|x r1]; [|exact I].
  change nb_parse_hdr with 12 in *. change nb_parse_rule_ge with true in *.
  change rb_parse_hdr with 12. change rb_parse_rule_ge with true.
  assert (Hl' : len b1 = len b2).
  { rewrite Eb1, Eb2. unfold len. rewrite !app_length, rwire_length. cbn [length]. lia. }
  pose proof (follow_lockstep c (follow_fuel start) p1 start b1 b2 Hl' Hlt) as FL. unfold fol_rel in FL.
  destruct (nb_follow (follow_fuel start) 12 true c p1 start b1) as [w| | |];
    destruct (rb_follow (follow_fuel start) 12 true c p1 start b2) as [rw| | |]; cbn [top_rel_p] in *; try exact FL; try contradiction.
  destruct FL as (ls2 & t & Ew & Erw & Ht1 & Ht2).
  destruct p1 as [p1|].
  - specialize (Ht1 ltac:(discriminate)). subst t. cbn [term_of app] in Eb1, Eb2. rewrite app_nil_r in Eb1, Eb2.
    exists (ls ++ ls2). rewrite Ew, Erw, Eb1, Eb2. unfold wire_abs, rev_wire. rewrite wire_rel_app, rwire_app, <- !app_assoc.
    split; reflexivity.
  - destruct (Ht2 eq_refl) as [-> ->]. cbn [term_of app] in Eb1, Eb2.
    exists ls. rewrite Ew, Erw, Eb1, Eb2. unfold wire_abs, rev_wire. cbn [wire_rel map concat rwire rev app]. rewrite ?app_nil_r. split; reflexivity.
Qed.

Theorem rev_parse_total c start : no_panic (rev_parse c start).
Proof.
  pose proof (rev_parse_lockstep c start) as L. unfold top_rel_p in L.
  destruct (new_parse c start); destruct (rev_parse c start); try contradiction; exact I.
Qed.

(* all four readers decode the same paths: the exact parse of either name type
   succeeds iff the split reader of that type succeeds and ends at the end of
   the range, with the same labels *)
Theorem four_readers c start ls :
  (new_parse c start = Ok (wire_abs ls) <-> new_split c start = Ok (wire_abs ls, len c)) /\
  (rev_parse c start = Ok (rev_wire ls) <-> new_split c start = Ok (wire_abs ls, len c)) /\
  (rev_split c start = Ok (rev_wire ls, len c) <-> new_split c start = Ok (wire_abs ls, len c)).
Proof.
  split; [apply new_parse_is_split|]. split.
  - rewrite <- new_parse_is_split. pose proof (rev_parse_lockstep c start) as L. unfold top_rel_p in L. split; intros H.
    + rewrite H in L. destruct (new_parse c start) as [w| | |]; try contradiction.
      destruct L as (ls' & -> & E). unfold rev_wire in E. injection E as E.
      assert (ls = ls'); [|subst; reflexivity].
      apply wire_rel_inj. clear - E. unfold rwire in E.
      assert (Q : forall a b : name, concat (map wire_label (rev a)) = concat (map wire_label (rev b)) -> rev a = rev b).
      { intros a b Hq. apply wire_rel_inj. exact Hq. }
      apply Q in E. apply (f_equal (@rev label)) in E. rewrite !rev_involutive in E. rewrite E. reflexivity.
    + rewrite H in L. destruct (rev_parse c start) as [rw| | |]; try contradiction.
      destruct L as (ls' & E & ->). apply wire_abs_inj in E. subst. reflexivity.
  - pose proof (rev_split_lockstep c start) as L. unfold top_rel in L. split; intros H.
    + rewrite H in L. destruct (new_split c start) as [[w e]| | |]; try contradiction.
      destruct L as (-> & ls' & -> & E). unfold rev_wire in E. injection E as E.
      assert (ls = ls'); [|subst; reflexivity].
      assert (Q : forall a b : name, concat (map wire_label (rev a)) = concat (map wire_label (rev b)) -> rev a = rev b).
      { intros a b Hq. apply wire_rel_inj. exact Hq. }
      unfold rwire in E. apply Q in E. apply (f_equal (@rev label)) in E. rewrite !rev_involutive in E. exact E.
    + rewrite H in L. destruct (rev_split c start) as [[rw e']| | |]; try contradiction.
      destruct L as (<- & ls' & E & ->). apply wire_abs_inj in E. subst. reflexivity.
Qed.

(* termination and rejection on the shapes of seeded change C19-r3-2 *)
Example chain_examples :
  rev_parse [192;12;1;120;192;12] 2 = Err E_PARSE /\ new_parse [192;12;1;120;192;12] 2 = Err E_PARSE /\
  rev_parse [1;97;192;18;0;0;3;111;114;103;0;3;119;119;119;192;12] 11 = Err E_PARSE /\
  rev_parse [3;111;114;103;0;1;97;192;12;3;119;119;119;192;17] 9 = Ok (rev_wire [[119;119;119];[97];[111;114;103]]).
Proof. vm_compute. repeat split; reflexivity. Qed.
