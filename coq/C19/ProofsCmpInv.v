(* C19 proofs, part 6: soundness of the new name compressor (Name path) for ANY
   number of pushed names, including reuse (eviction) of slots.
   Invariant between two pushes: every used slot's octets are in the contents
   and are followed there by the root label (no parent) or by a compression
   pointer to an earlier offset.  Which slot is evicted, and whether a parent
   index still names the entry it named when it was stored, is irrelevant: the
   attach test of the lookup compares the pointer octets in the contents. *)
From Coq Require Import NArith List Bool Lia ZArith.
From Coq Require Import ZifyN ZifyBool ZifyNat.
From DV Require Import Base.Outcome Base.Bytes Base.Names Base.PName C19.Gen C19.Model C19.ModelCmp
  C19.ProofsOld C19.ProofsNew C19.ProofsAgree C19.ProofsCmpSound.
Import ListNotations.
Local Open Scope N_scope.
Ltac Zify.zify_post_hook ::= Z.div_mod_to_equations.

(* ---- more about a lookup hit: the attach test passed, the index is a slot ---- *)
Lemma lookup_hit_extra k : forall i0 st c n parent poff hash i rest h p, n <> [] ->
  lookup_from k i0 st c (wire_rel n) parent poff hash = LkHit i rest h p ->
  attach_ok c (nth (N.to_nat i) (cs_pos st) 0) (nth (N.to_nat i) (cs_len st) 0) poff = true /\
  (i0 <= N.to_nat i < i0 + k)%nat.
Proof.
  induction k as [|k IH]; intros i0 st c n parent poff hash i rest h p Hn H; [discriminate H|].
  rewrite lookup_step in H. cbv zeta in H.
  assert (Hnext : lookup_from k (S i0) st c (wire_rel n) parent poff hash = LkHit i rest h p ->
                  attach_ok c (nth (N.to_nat i) (cs_pos st) 0) (nth (N.to_nat i) (cs_len st) 0) poff = true /\
                  (i0 <= N.to_nat i < i0 + S k)%nat).
  { intros Q. destruct (IH _ _ _ _ _ _ _ _ _ _ _ Hn Q). split; [assumption|lia]. }
  destruct (negb (nth i0 (cs_hash st) 0 =? hash) || negb (nth i0 (cs_par st) 0 =? parent)) eqn:F; [auto|].
  apply orb_false_iff in F as [_ F]. apply negb_false_iff, N.eqb_eq in F.
  destruct (nth i0 (cs_len st) 0 =? 0); [destruct cmp_skips_unused; [auto|discriminate H]|].
  destruct (slice_opt c (nth i0 (cs_pos st) 0) (nth i0 (cs_len st) 0)) as [entry|] eqn:S; [|discriminate H].
  destruct (attach_ok c (nth i0 (cs_pos st) 0) (nth i0 (cs_len st) 0) poff) eqn:A; cbn [negb] in H; [|auto].
  assert (He : len entry = nth i0 (cs_len st) 0).
  { unfold slice_opt in S. destruct (N.ltb_spec (len c) (nth i0 (cs_pos st) 0 + nth i0 (cs_len st) 0)); [discriminate S|].
    inversion S. unfold len in *. rewrite firstn_length, skipn_length. lia. }
  destruct (slot_sound st c n parent _ i0 _ _ entry i rest h p Hn H F eq_refl eq_refl S He) as [Q|[-> _]]; [auto|].
  rewrite Nat2N.id. split; [exact A|lia].
Qed.

Lemma slice_opt_split c a k e : slice_opt c a k = Some e ->
  exists pre post, c = pre ++ e ++ post /\ len pre = a /\ len e = k.
Proof.
  unfold slice_opt. destruct (N.ltb_spec (len c) (a + k)) as [|H]; [discriminate|]. intros Q. inversion Q; subst e. clear Q.
  exists (firstn (N.to_nat a) c), (skipn (N.to_nat k) (skipn (N.to_nat a) c)).
  split; [rewrite firstn_skipn, firstn_skipn; reflexivity|].
  unfold len in *. rewrite !firstn_length, skipn_length. lia.
Qed.

Lemma nth_set_nth l : forall i j v, nth j (set_nth l i v) 0 = if (Nat.eqb j i) && (Nat.ltb i (length l)) then v else nth j l 0.
Proof.
  induction l as [|x l IH]; intros i j v.
  - cbn. rewrite andb_false_r. reflexivity.
  - destruct i as [|i], j as [|j]; cbn [set_nth nth length Nat.eqb]; try reflexivity.
    rewrite IH. destruct (Nat.eqb j i); cbn [andb]; [|reflexivity].
    change (S i <? S (length l))%nat with (i <? length l)%nat. reflexivity.
Qed.

Definition byte_at (c : bytes) (i : N) : option N := nth_error c (N.to_nat i).

Lemma byte_at_app c x i b : byte_at c i = Some b -> byte_at (c ++ x) i = Some b.
Proof.
  unfold byte_at. intros H. rewrite nth_error_app1; [exact H|]. apply nth_error_Some. congruence.
Qed.

Lemma byte_at_mid a x r : byte_at (a ++ x :: r) (len a) = Some x.
Proof. unfold byte_at, len. rewrite Nat2N.id. apply nth_error_mid. Qed.

(* ---- paths survive appending to the message ---- *)
Lemma get_app_l m x i b : get m i = Some b -> get (m ++ x) i = Some b.
Proof. unfold get. intros H. rewrite nth_error_app1; [exact H|]. apply nth_error_Some. congruence. Qed.

Lemma slice_app_l m x a b : b <= mlen m -> slice (m ++ x) a b = slice m a b.
Proof.
  intros H. unfold slice, mlen in *. destruct (N.leb_spec a b) as [Hab|Hab].
  - rewrite skipn_app, firstn_app. rewrite skipn_length.
    replace (N.to_nat (b - a) - (length m - N.to_nat a))%nat with 0%nat by lia.
    cbn [firstn]. rewrite app_nil_r. reflexivity.
  - replace (b - a) with 0 by lia. reflexivity.
Qed.

Lemma pchain_extend R m x seg cur t : pchain R m seg cur t -> pchain R (m ++ x) seg cur t.
Proof. induction 1; [eapply pc_last|eapply pc_more]; eauto using get_app_l. Qed.

Lemma dpath_extend R m x cur seg nl n e : dpath R m cur seg nl n e -> dpath R (m ++ x) cur seg nl n e.
Proof.
  induction 1.
  - constructor. apply get_app_l. assumption.
  - rewrite <- (slice_app_l m x (cur + 1) (cur + 1 + b)) by lia. econstructor; eauto using get_app_l.
    unfold mlen in *. rewrite app_length. lia.
  - econstructor; eauto using pchain_extend.
Qed.

(* ---- the invariant ---- *)
Definition slot_ok (st : cstate) (c : bytes) (i : nat) : Prop :=
  let pos := nth i (cs_pos st) 0 in
  let ln := nth i (cs_len st) 0 in
  ln <> 0 ->
  (nth i (cs_par st) 0 = 64 -> byte_at c (pos + ln) = Some 0) /\
  (nth i (cs_par st) 0 <> 64 ->
     exists hi lo, byte_at c (pos + ln) = Some hi /\ byte_at c (pos + ln + 1) = Some lo /\
                   192 <= hi /\ 12 <= ptr_val hi lo /\ ptr_val hi lo - 12 < pos).
Definition Inv (st : cstate) (c : bytes) : Prop :=
  (length (cs_pos st) = length (cs_len st) /\ length (cs_len st) = length (cs_par st)) /\
  forall i, slot_ok st c i.

Lemma Inv_new c : Inv cs_new c.
Proof.
  split; [split; reflexivity|]. intros i. unfold slot_ok. cbn [cs_len cs_new]. rewrite nth_zeros. intros H; contradiction.
Qed.

Section STEP.
Variable h : bytes.
Hypothesis Hh : length h = 12%nat.

(* reading at contents offset p yields M (up to case), whatever was collected before *)
Definition reads (c : bytes) (p : N) (M : name) : Prop :=
  exists M', canon M' = canon M /\
    (exists b', get (h ++ c) (12 + p) = Some b' /\ b' <= 63) /\
    forall nl, nl + N.of_nat (wire_len M) < 255 -> exists e, dpath R_new (h ++ c) (12 + p) (12 + p) nl M' e.

Lemma get_byte_at c i : get (h ++ c) (12 + i) = byte_at c i.
Proof. apply get_m. exact Hh. Qed.

Lemma attach_some c pos ln o : attach_ok c pos ln (Some o) = true -> o + 12 < 16384 ->
  exists hi lo, byte_at c (pos + ln) = Some hi /\ byte_at c (pos + ln + 1) = Some lo /\
                192 <= hi /\ ptr_val hi lo = o + 12.
Proof.
  unfold attach_ok. change cmp_attach_add with 49164. intros H Ho.
  destruct (slice_opt c (pos + ln) 2) as [[|hi [|lo [|? ?]]]|] eqn:S; try discriminate H.
  apply andb_true_iff in H as [H1 H2]. apply N.eqb_eq in H1, H2.
  apply slice_opt_split in S as (pre & post & Hc & Hp & _).
  exists hi, lo. rewrite Hc. split.
  { rewrite <- Hp. change ([hi; lo] ++ post) with (hi :: lo :: post). apply byte_at_mid. }
  split.
  { replace (pos + ln + 1) with (len (pre ++ [hi])) by (unfold len in *; rewrite app_length; cbn [length]; lia).
    replace (pre ++ [hi; lo] ++ post) with ((pre ++ [hi]) ++ lo :: post) by (rewrite <- app_assoc; reflexivity).
    apply byte_at_mid. }
  rewrite (N.mod_small (o + 49164) 65536) in H1, H2 by lia. subst hi lo.
  destruct (ptr_val_of (o + 49164) o eq_refl Ho). auto.
Qed.

(* one hit: what the offset now reads as *)
Lemma hit_extends st c n_r parent poff i rest p2 M :
  Inv st c -> Forall valid_label n_r ->
  hit_ok st c n_r parent i rest p2 ->
  attach_ok c (nth (N.to_nat i) (cs_pos st) 0) (nth (N.to_nat i) (cs_len st) 0) poff = true ->
  ((parent = 64 /\ poff = None /\ M = []) \/
   (parent <> 64 /\ exists p1, poff = Some p1 /\ p1 + 12 < 16384 /\ reads c p1 M)) ->
  exists n_pre n_suf, n_r = n_pre ++ n_suf /\ n_suf <> [] /\ rest = wire_rel n_pre /\
    reads c p2 (n_suf ++ M) /\ p2 < len c.
Proof.
  intros HI Hv HK HA HL.
  destruct HK as (n_pre & n_suf & entry & Hsplit & Hsuf & Hrest & Hpar & Hslice & Hel & Hle & Hp & Hci).
  exists n_pre, n_suf. split; [exact Hsplit|]. split; [exact Hsuf|]. split; [exact Hrest|].
  set (pos := nth (N.to_nat i) (cs_pos st) 0) in *. set (ln := nth (N.to_nat i) (cs_len st) 0) in *.
  assert (Hvs : Forall valid_label n_suf) by (rewrite Hsplit in Hv; apply Forall_app in Hv; tauto).
  destruct (slice_opt_split _ _ _ _ Hslice) as (pre & post & Hc & Hpre & _).
  set (k := length (wire_rel n_suf)) in *.
  set (A := firstn (length entry - k) entry). set (B := lastn k entry) in *.
  assert (HAB : entry = A ++ B) by (unfold A, B, lastn; symmetry; apply firstn_skipn).
  assert (HBlen : length B = k) by (unfold B; apply lastn_length; exact Hle).
  assert (HAlen : (length A + k = length entry)%nat).
  { pose proof (f_equal (@length N) HAB) as Q. rewrite app_length in Q. lia. }
  assert (Hkpos : (0 < k)%nat).
  { unfold k. destruct n_suf as [|l0 ?]; [contradiction|]. rewrite wire_rel_cons. unfold wire_label. cbn [app length]. lia. }
  assert (Hc2 : c = (pre ++ A) ++ B ++ post) by (rewrite Hc, HAB; rewrite <- !app_assoc; reflexivity).
  assert (Hp2 : len (pre ++ A) = p2) by (unfold len in *; rewrite app_length; lia).
  destruct (path_ci h c Hh n_suf Hvs (pre ++ A) B post Hc2 Hci) as (ns' & Hcan_s & Hwl_s & Hwr_s & Hvs' & Ps).
  rewrite Hp2 in Ps.
  assert (Hend : p2 + len B = pos + ln) by (unfold len in *; lia).
  assert (Hlnz : ln <> 0) by (unfold len in *; lia).
  assert (Hplt : p2 < len c).
  { rewrite Hc2. unfold len in *. rewrite !app_length. lia. }
  split; [|exact Hplt].
  (* first octet at p2 *)
  assert (Hfirst : exists b', get (h ++ c) (12 + p2) = Some b' /\ b' <= 63).
  { destruct ns' as [|l' ns'']; [cbn in Hwl_s; destruct n_suf; [contradiction|cbn in Hwl_s; lia]|].
    pose proof (Forall_inv Hvs') as [Hl'1 _].
    exists (N.of_nat (length l')). split; [|lia].
    rewrite get_byte_at. rewrite wire_rel_cons in Hwr_s. unfold wire_label in Hwr_s. cbn [app] in Hwr_s.
    rewrite Hc2, <- Hwr_s, <- Hp2. cbn [app]. apply byte_at_mid. }
  pose proof (proj2 HI (N.to_nat i)) as HS. unfold slot_ok in HS. fold pos ln in HS. specialize (HS Hlnz).
  destruct HS as [HS64 HSptr].
  destruct HL as [(-> & -> & ->)|(Hp64 & p1 & -> & Hp1 & (M1 & Hcan1 & (b1 & Gb1 & Hb1) & D1))].
  - (* the entry is followed by the root label *)
    specialize (HS64 Hpar). exists ns'. rewrite app_nil_r. split; [exact Hcan_s|]. split; [exact Hfirst|].
    intros nl Hnl. exists (12 + p2 + len B + 1). rewrite <- (app_nil_r ns').
    apply (Ps nl Hnl). constructor. rewrite <- N.add_assoc, Hend, get_byte_at. exact HS64.
  - (* the entry is followed by the pointer the attach test has compared *)
    destruct (attach_some _ _ _ _ HA Hp1) as (hi & lo & Ghi & Glo & Hhi & Hpv).
    rewrite Hpar in HSptr. destruct (HSptr Hp64) as (hi' & lo' & Ghi' & Glo' & _ & _ & Hlt).
    assert (hi' = hi) by congruence. assert (lo' = lo) by congruence. subst hi' lo'.
    rewrite Hpv in Hlt.
    exists (ns' ++ M1). split.
    { unfold canon in *. rewrite !map_app. f_equal; assumption. }
    split; [exact Hfirst|].
    intros nl Hnl. rewrite wire_len_app in Hnl.
    destruct (D1 (nl + N.of_nat (wire_len n_suf)) ltac:(lia)) as (e1 & Dt).
    exists (12 + p2 + len B + 2). apply (Ps nl ltac:(lia)).
    eapply dp_ptr with (t := 12 + p1); [|exact Dt].
    replace (12 + p1) with (ptr_val hi lo) by lia.
    eapply pc_last.
    + rewrite <- N.add_assoc, Hend, get_byte_at. exact Ghi.
    + exact Hhi.
    + replace (12 + p2 + len B + 1) with (12 + (pos + ln + 1)) by lia. rewrite get_byte_at. exact Glo.
    + unfold R_new. unfold len in *. lia.
    + rewrite Hpv. replace (p1 + 12) with (12 + p1) by lia. exact Gb1.
    + exact Hb1.
Qed.
End STEP.

(* ---- the invariant under appending and under registration ---- *)
Lemma slot_ok_app st c x i : slot_ok st c i -> slot_ok st (c ++ x) i.
Proof.
  unfold slot_ok. intros H Hln. destruct (H Hln) as [H1 H2]. split.
  - intros Q. apply byte_at_app. auto.
  - intros Q. destruct (H2 Q) as (hi & lo & A & B & C). exists hi, lo. split; [apply byte_at_app; exact A|].
    split; [apply byte_at_app; exact B|exact C].
Qed.

Lemma Inv_app st c x : Inv st c -> Inv st (c ++ x).
Proof. intros [W H]. split; [exact W|]. intros i. apply slot_ok_app. apply H. Qed.

Lemma Inv_same st st1 c : cs_pos st1 = cs_pos st -> cs_len st1 = cs_len st -> cs_par st1 = cs_par st ->
  Inv st c -> Inv st1 c.
Proof. intros E1 E2 E3 [W H]. split; [rewrite E1, E2, E3; exact W|]. intros i. unfold slot_ok. rewrite E1, E2, E3. apply H. Qed.

Lemma set_nth_length l : forall i v, length (set_nth l i v) = length l.
Proof. induction l as [|x l IH]; intros [|i] v; cbn; auto. Qed.

Lemma Inv_register st c use' hash' idx P L Q :
  Inv st c ->
  (L <> 0 -> (Q = 64 -> byte_at c (P + L) = Some 0) /\
             (Q <> 64 -> exists hi lo, byte_at c (P + L) = Some hi /\ byte_at c (P + L + 1) = Some lo /\
                                        192 <= hi /\ 12 <= ptr_val hi lo /\ ptr_val hi lo - 12 < P)) ->
  Inv (mkC use' (set_nth (cs_pos st) idx P) (set_nth (cs_len st) idx L) (set_nth (cs_par st) idx Q) hash') c.
Proof.
  intros [[W1 W2] H] Hnew. split; [cbn [cs_pos cs_len cs_par]; rewrite !set_nth_length; auto|].
  intros i. unfold slot_ok. cbn [cs_pos cs_len cs_par]. rewrite !nth_set_nth. rewrite <- W2, <- W1.
  destruct ((i =? idx)%nat && (idx <? length (cs_pos st))%nat); [exact Hnew|apply H].
Qed.

Section SEQ.
Variable h : bytes.
Hypothesis Hh : length h = 12%nat.

Definition LI (c : bytes) (parent : N) (poff : option N) (M : name) : Prop :=
  (parent = 64 /\ poff = None /\ M = []) \/
  (parent <> 64 /\ exists p1, poff = Some p1 /\ p1 + 12 < 16384 /\ p1 < len c /\ reads h c p1 M).

Lemma LI_weaken c parent poff M : LI c parent poff M ->
  (parent = 64 /\ poff = None /\ M = []) \/
  (parent <> 64 /\ exists p1, poff = Some p1 /\ p1 + 12 < 16384 /\ reads h c p1 M).
Proof. intros [H|(H & p1 & A & B & _ & C)]; [left; exact H|right; eauto 8]. Qed.

Lemma compress_loop_sound fuel : forall st c n_r parent poff hash M st' name' parent' poff' hash',
  Inv st c -> Forall valid_label n_r -> LI c parent poff M ->
  compress_loop fuel st c (wire_rel n_r) parent poff hash = Ok (st', name', parent', poff', hash') ->
  exists n_pre n_suf, n_r = n_pre ++ n_suf /\ name' = wire_rel n_pre /\ LI c parent' poff' (n_suf ++ M) /\
    cs_pos st' = cs_pos st /\ cs_len st' = cs_len st /\ cs_par st' = cs_par st.
Proof.
  induction fuel as [|fuel IH]; intros st c n_r parent poff hash M st' name' parent' poff' hash' HI Hv HL H; [discriminate H|].
  cbn [compress_loop] in H.
  destruct n_r as [|l0 n0].
  { cbn in H. inversion H; subst. exists [], []. auto 8. }
  assert (Hn : l0 :: n0 <> []) by discriminate.
  destruct (wire_rel (l0 :: n0)) as [|x nm] eqn:En; [exfalso; eapply wire_rel_nonnil; eauto|]. rewrite <- En in *.
  destruct (lookup_from 32 0 st c (wire_rel (l0 :: n0)) parent poff hash) as [|i rest hh p|s] eqn:L.
  - inversion H; subst. exists (l0 :: n0), []. rewrite app_nil_r. auto 8.
  - pose proof (lookup_hit_sound _ _ _ _ _ _ _ _ _ _ _ _ Hn L) as HK.
    destruct (lookup_hit_extra _ _ _ _ _ _ _ _ _ _ _ _ Hn L) as [HA Hidx].
    destruct (hit_extends h Hh st c (l0 :: n0) parent poff i rest p M HI Hv HK HA (LI_weaken _ _ _ _ HL))
      as (n_pre & n_suf & Hsplit & Hsuf & Hrest & Hreads & Hplt).
    change cn_range_check with true in H. change cn_range_ge with true in H.
    change cn_range_add with 12 in H. change cn_range_bound with 16384 in H.
    unfold cmp_ge in H. cbn [andb] in H.
    destruct (N.leb_spec 16384 (p + 12)) as [Hr|Hr].
    + inversion H; subst. exists (l0 :: n0), []. rewrite app_nil_r. auto 8.
    + set (st1 := if cmp_lt cn_use_strict (N.max (len c + len rest) cn_use_floor) cn_use_bound
                  then mkC (set_nth (cs_use st) (N.to_nat i) (N.max (len c + len rest) cn_use_floor)) (cs_pos st) (cs_len st) (cs_par st) (cs_hash st)
                  else st) in H.
      assert (S1 : cs_pos st1 = cs_pos st /\ cs_len st1 = cs_len st /\ cs_par st1 = cs_par st).
      { unfold st1. destruct (cmp_lt _ _ _); auto. }
      destruct S1 as (S1a & S1b & S1c).
      rewrite Hrest in H.
      assert (Hvp : Forall valid_label n_pre) by (rewrite Hsplit in Hv; apply Forall_app in Hv; tauto).
      destruct (IH st1 c n_pre i (Some p) hh (n_suf ++ M) st' name' parent' poff' hash') as (np2 & ns2 & E2 & En2 & L2 & Q1 & Q2 & Q3); auto.
      { apply (Inv_same st); auto. }
      { right. split; [lia|]. exists p. auto. }
      exists np2, (ns2 ++ n_suf). split; [rewrite Hsplit, E2, app_assoc; reflexivity|].
      split; [exact En2|]. split; [rewrite <- app_assoc; exact L2|].
      rewrite Q1, Q2, Q3. auto.
  - discriminate H.
Qed.
End SEQ.

Local Opaque compress_loop lookup_from last_label hash_label.

Section SEQ2.
Variable h : bytes.
Hypothesis Hh : length h = 12%nat.

(* one push: the name reads back, the invariant is re-established *)
Lemma build_name_sound st c n bs st' :
  Inv st c -> Forall valid_label n -> (wire_len n <= 254)%nat ->
  build_name st c (wire_abs n) = Ok (bs, st') ->
  Inv st' (c ++ bs) /\ wf_bytes bs /\
  exists n', canon n' = canon n /\
    dpath R_new (h ++ c ++ bs) (12 + len c) (12 + len c) 0 n' (12 + len c + len bs).
Proof.
  intros HI Hv Hl H. unfold build_name in H.
  destruct (compress_name st c (wire_abs n)) as [[res st2]| | |] eqn:EC; cbn [bind] in H; try discriminate H.
  unfold compress_name in EC. rewrite firstn_wire_abs in EC.
  destruct n as [|l0 n0].
  { cbn in EC. inversion EC; subst. inversion H; subst. split; [apply Inv_app; exact HI|].
    split; [repeat constructor; lia|]. exists []. split; [reflexivity|].
    change (len (wire_abs [])) with 1. constructor. rewrite get_byte_at by exact Hh.
    change (wire_abs []) with [0]. apply byte_at_mid. }
  set (n := l0 :: n0) in *.
  assert (Hn : n <> []) by discriminate.
  assert (Hnm : len (wire_rel n) mod 256 = len (wire_rel n)).
  { apply N.mod_small. unfold len. rewrite wire_rel_length. lia. }
  destruct (wire_rel n) as [|x nm] eqn:En; [exfalso; eapply wire_rel_nonnil; eauto|].
  cbv beta iota in EC.
  destruct (last_label (x :: nm)) as [lab| | |]; cbn [bind] in EC; try discriminate EC.
  destruct (compress_loop (S (length (x :: nm))) st c (x :: nm) cn_no_parent None (hash_label lab))
    as [[[[[st1 name'] parent'] poff'] hash']| | |] eqn:EL; cbn [bind] in EC; try discriminate EC.
  rewrite <- En in EL.
  destruct (compress_loop_sound h Hh (S (length (wire_rel n))) st c n cn_no_parent None (hash_label lab) [] st1 name' parent' poff' hash' HI Hv) as
    (n_pre & n_suf & Hsplit & Hname' & HL & Q1 & Q2 & Q3); [left; auto| exact EL |].
  rewrite app_nil_r in HL.
  assert (HI1 : Inv st1 c) by (apply (Inv_same st); auto).
  assert (Hvp : Forall valid_label n_pre /\ Forall valid_label n_suf) by (rewrite Hsplit in Hv; apply Forall_app; exact Hv).
  destruct Hvp as [Hvp Hvs].
  assert (Hwl : wire_len n = (wire_len n_pre + wire_len n_suf)%nat) by (rewrite Hsplit; apply wire_len_app).
  (* the state after registration *)
  change cn_reg_strict with true in EC. change cn_reg_add with 12 in EC. change cn_reg_bound with 16384 in EC.
  unfold cmp_lt in EC.
  destruct HL as [(-> & -> & Hs0)|(Hp64 & p & -> & Hp12 & Hplt & (M' & HcanM & (b1 & Gb1 & Hb1) & DM))].
  - (* nothing matched: the name is written out *)
    subst n_suf. rewrite app_nil_r in Hsplit. subst n_pre.
    assert (Eres : res = None) by (destruct name'; inversion EC; reflexivity). subst res.
    inversion H; subst bs st'. clear H.
    split.
    { rewrite Hname', En in EC. cbv iota in EC.
      destruct (N.ltb_spec (len c + 12) 16384) as [Hr|Hr]; inversion EC; subst st2; [|apply Inv_app; exact HI1].
      apply Inv_register; [apply Inv_app; exact HI1|].
      rewrite (N.mod_small (len c) 65536) by lia. rewrite Hnm. intros _. split; [|intros Q; contradiction].
      intros _. unfold wire_abs. rewrite En. rewrite app_assoc.
      replace (len c + len (x :: nm)) with (len (c ++ x :: nm)) by (unfold len; rewrite app_length; lia).
      apply byte_at_mid. }
    split; [apply wf_wire_abs; exact Hv|].
    destruct (verbatim_reads h Hh c n [] (c ++ wire_abs n)) as (n' & Hcan & D); auto.
    { rewrite app_nil_r. reflexivity. }
    exists n'. split; [exact Hcan|]. apply D.
  - (* rest ++ pointer *)
    assert (Eres : res = Some (name', p)) by (destruct name'; inversion EC; reflexivity). subst res.
    change bim_ptr_add with 49164 in H.
    destruct (N.ltb_spec 65535 (p + 49164)); [lia|]. inversion H; subst bs st'. clear H.
    set (v := p + 49164) in *.
    destruct (ptr_val_of v p eq_refl Hp12) as [Hhi Hpv].
    assert (Hbytes : byte_at (c ++ name' ++ [v / 256; v mod 256]) (len c + len name') = Some (v / 256) /\
                     byte_at (c ++ name' ++ [v / 256; v mod 256]) (len c + len name' + 1) = Some (v mod 256)).
    { split.
      - replace (len c + len name') with (len (c ++ name')) by (unfold len; rewrite app_length; lia).
        rewrite app_assoc. apply byte_at_mid.
      - replace (len c + len name' + 1) with (len ((c ++ name') ++ [v / 256])) by (unfold len; rewrite !app_length; cbn [length]; lia).
        replace (c ++ name' ++ [v / 256; v mod 256]) with (((c ++ name') ++ [v / 256]) ++ v mod 256 :: []) by (rewrite <- !app_assoc; reflexivity).
        apply byte_at_mid. }
    destruct Hbytes as [Bhi Blo].
    split.
    { assert (Hnl : len name' mod 256 = len name').
      { apply N.mod_small. rewrite Hname'. unfold len. rewrite wire_rel_length. lia. }
      destruct name' as [|y nm'] eqn:En'; cbv iota in EC; [inversion EC; subst st2; apply Inv_app; exact HI1|].
      destruct (N.ltb_spec (len c + 12) 16384) as [Hr|Hr]; inversion EC; subst st2; [|apply Inv_app; exact HI1].
      apply Inv_register; [apply Inv_app; exact HI1|].
      rewrite (N.mod_small (len c) 65536) by lia. rewrite Hnl. intros _. split; [intros Q; contradiction|].
      intros _. exists (v / 256), (v mod 256). repeat split; auto; lia. }
    split.
    { apply wf_bytes_app. split; [rewrite Hname'; apply wf_wire_rel; exact Hvp|]. repeat constructor; lia. }
    (* the path *)
    set (c' := c ++ name' ++ [v / 256; v mod 256]).
    destruct (DM (N.of_nat (wire_len n_pre)) ltac:(lia)) as (e1 & Dt0).
    assert (Dt : dpath R_new (h ++ c') (12 + p) (12 + p) (N.of_nat (wire_len n_pre)) M' e1).
    { unfold c'. rewrite app_assoc. apply dpath_extend. exact Dt0. }
    destruct (path_ci h c' Hh n_pre Hvp c name' [v / 256; v mod 256] eq_refl) as (np' & Hcan_p & _ & _ & _ & Pp).
    { rewrite Hname'. reflexivity. }
    exists (np' ++ M'). split.
    { rewrite Hsplit. unfold canon in *. rewrite !map_app. f_equal; assumption. }
    replace (12 + len c + len (name' ++ [v / 256; v mod 256])) with (12 + len c + len name' + 2)
      by (unfold len; rewrite app_length; cbn [length]; lia).
    apply (Pp 0 ltac:(lia)). replace (0 + N.of_nat (wire_len n_pre)) with (N.of_nat (wire_len n_pre)) by lia.
    eapply dp_ptr with (t := 12 + p); [|exact Dt].
    replace (12 + p) with (ptr_val (v / 256) (v mod 256)) by lia.
    eapply pc_last.
    + replace (12 + len c + len name') with (12 + (len c + len name')) by lia. rewrite get_byte_at by exact Hh. exact Bhi.
    + exact Hhi.
    + replace (12 + len c + len name' + 1) with (12 + (len c + len name' + 1)) by lia. rewrite get_byte_at by exact Hh. exact Blo.
    + unfold R_new. lia.
    + rewrite Hpv. replace (p + 12) with (12 + p) by lia. unfold c'. rewrite app_assoc. apply get_app_l. exact Gb1.
    + exact Hb1.
Qed.
End SEQ2.

(* ---- any number of pushes ---- *)
Fixpoint reads_back (h c' : bytes) (start : N) (ns : list name) : Prop :=
  match ns with
  | [] => start = len c'
  | n :: t => exists n' e, canon n' = canon n /\
                new_split c' start = Ok (wire_abs n', e) /\
                decode_name (h ++ c') (12 + start) (mlen (h ++ c')) = Ok (n', 12 + e) /\
                reads_back h c' e t
  end.

Theorem build_names_sound (h : bytes) (Hh : length h = 12%nat) : forall ns st c c',
  Inv st c -> wf_bytes c -> Forall valid_abs ns ->
  build_names st c (map wire_abs ns) = Ok c' ->
  (exists tail, c' = c ++ tail) /\ wf_bytes c' /\
  (* every name has a path in the final message, starting where the previous one ended *)
  (fix chain (start : N) (l : list name) : Prop :=
     match l with
     | [] => start = len c'
     | n :: t => exists n' e, canon n' = canon n /\
                   dpath R_new (h ++ c') (12 + start) (12 + start) 0 n' (12 + e) /\ chain e t
     end) (len c) ns.
Proof.
  induction ns as [|n t IH]; intros st c c' HI Hwf Hv H.
  - cbn in H. inversion H; subst. split; [exists []; rewrite app_nil_r; reflexivity|]. split; [exact Hwf|reflexivity].
  - cbn [map build_names] in H.
    destruct (build_name st c (wire_abs n)) as [[bs st1]| | |] eqn:B; cbn [bind] in H; try discriminate H.
    pose proof (Forall_inv Hv) as [Hvn Hln]. pose proof (Forall_inv_tail Hv) as Hvt.
    destruct (build_name_sound h Hh st c n bs st1 HI Hvn Hln B) as (HI1 & Hwfb & n' & Hcan & D).
    assert (Hwf1 : wf_bytes (c ++ bs)) by (apply wf_bytes_app; auto).
    destruct (IH st1 (c ++ bs) c' HI1 Hwf1 Hvt H) as ((tail & Hc') & Hwf' & Hchain).
    split; [exists (bs ++ tail); rewrite Hc', app_assoc; reflexivity|]. split; [exact Hwf'|].
    exists n', (len c + len bs). split; [exact Hcan|]. split.
    + rewrite Hc'. replace (h ++ (c ++ bs) ++ tail) with ((h ++ c ++ bs) ++ tail) by (rewrite <- !app_assoc; reflexivity).
      apply dpath_extend. replace (12 + (len c + len bs)) with (12 + len c + len bs) by lia. exact D.
    + replace (len c + len bs) with (len (c ++ bs)) by (unfold len; rewrite app_length; lia). exact Hchain.
Qed.

(* new_compressor_sound: a fresh compressor, any earlier contents, ANY list of
   valid names (no bound on their number: slots are reused): every name reads
   back equal up to case, through both readers, each starting where the
   previous one ended, the last ending at the end of the contents *)
Theorem new_compressor_sound (h c0 : bytes) (ns : list name) (c : bytes) :
  length h = 12%nat -> wf_bytes c0 -> Forall valid_abs ns ->
  build_names cs_new c0 (map wire_abs ns) = Ok c ->
  reads_back h c (len c0) ns.
Proof.
  intros Hh Hwf0 Hv H.
  destruct (build_names_sound h Hh ns cs_new c0 c (Inv_new c0) Hwf0 Hv H) as (_ & Hwf & Hchain).
  clear H Hv. revert Hchain. generalize (len c0). induction ns as [|n t IH]; intros start Hchain.
  - exact Hchain.
  - destruct Hchain as (n' & e & Hcan & D & Ht). cbn [reads_back]. exists n', e.
    split; [exact Hcan|].
    destruct (new_split_complete h c Hh Hwf _ _ _ D) as [S He].
    split; [rewrite S; do 2 f_equal; lia|].
    split; [|apply IH; exact Ht].
    apply old_complete. eapply dpath_mono; [|apply N.le_refl|exact D].
    unfold R_new, R_old. intros; lia.
Qed.

(* non-vacuity: more names than slots, with reuse of suffixes of evicted entries *)
Example many_names_example :
  let lab (k : N) : label := [107; 48 + k / 10; 48 + k mod 10] in
  let ns := map (fun k => [lab k; [122; 111; 110; 101]]) (map N.of_nat (seq 0 40)) ++ [[lab 3; [122; 111; 110; 101]]] in
  exists c, build_names cs_new [] (map wire_abs ns) = Ok c /\ len c < 16384 /\
    new_split c (len c - 6) = Ok (wire_abs [lab 3; [122; 111; 110; 101]], len c).
Proof. eexists. split; [vm_compute; reflexivity|]. split; vm_compute; reflexivity. Qed.

(* ---- names interleaved with other octets (type/class/ttl/rdlen/rdata...) ---- *)
Inductive item := IName (n : name) | IRaw (b : bytes).

Fixpoint build_items (st : cstate) (c : bytes) (l : list item) : outcome bytes :=
  match l with
  | [] => Ok c
  | IRaw b :: t => build_items st (c ++ b) t
  | IName n :: t => do r <- build_name st c (wire_abs n); let '(bs, st') := r in build_items st' (c ++ bs) t
  end.

Definition item_ok (i : item) : Prop :=
  match i with IName n => valid_abs n | IRaw b => wf_bytes b end.

(* every name item reads back; raw items are skipped over *)
Fixpoint items_read_back (h c' : bytes) (start : N) (l : list item) : Prop :=
  match l with
  | [] => start = len c'
  | IRaw b :: t => items_read_back h c' (start + len b) t
  | IName n :: t => exists n' e, canon n' = canon n /\
                      new_split c' start = Ok (wire_abs n', e) /\
                      decode_name (h ++ c') (12 + start) (mlen (h ++ c')) = Ok (n', 12 + e) /\
                      items_read_back h c' e t
  end.

Theorem new_compressor_sound_items (h : bytes) (Hh : length h = 12%nat) : forall l st c c',
  Inv st c -> wf_bytes c -> Forall item_ok l ->
  build_items st c l = Ok c' ->
  (exists tail, c' = c ++ tail) /\ wf_bytes c' /\ (wf_bytes c' -> items_read_back h c' (len c) l).
Proof.
  induction l as [|[n|b] t IH]; intros st c c' HI Hwf Hv H.
  - cbn in H. inversion H; subst. split; [exists []; rewrite app_nil_r; reflexivity|]. split; [exact Hwf|reflexivity].
  - cbn [build_items] in H.
    destruct (build_name st c (wire_abs n)) as [[bs st1]| | |] eqn:B; cbn [bind] in H; try discriminate H.
    pose proof (Forall_inv Hv) as [Hvn Hln]. pose proof (Forall_inv_tail Hv) as Hvt.
    destruct (build_name_sound h Hh st c n bs st1 HI Hvn Hln B) as (HI1 & Hwfb & n' & Hcan & D).
    assert (Hwf1 : wf_bytes (c ++ bs)) by (apply wf_bytes_app; auto).
    destruct (IH st1 (c ++ bs) c' HI1 Hwf1 Hvt H) as ((tail & Hc') & Hwf' & Hchain).
    split; [exists (bs ++ tail); rewrite Hc', app_assoc; reflexivity|]. split; [exact Hwf'|].
    intros _. cbn [items_read_back]. exists n', (len c + len bs). split; [exact Hcan|].
    assert (D' : dpath R_new (h ++ c') (12 + len c) (12 + len c) 0 n' (12 + (len c + len bs))).
    { rewrite Hc'. replace (h ++ (c ++ bs) ++ tail) with ((h ++ c ++ bs) ++ tail) by (rewrite <- !app_assoc; reflexivity).
      apply dpath_extend. replace (12 + (len c + len bs)) with (12 + len c + len bs) by lia. exact D. }
    destruct (new_split_complete h c' Hh Hwf' _ _ _ D') as [S He].
    split; [rewrite S; do 2 f_equal; lia|]. split.
    + apply old_complete. eapply dpath_mono; [|apply N.le_refl|exact D']. unfold R_new, R_old. intros; lia.
    + replace (len c + len bs) with (len (c ++ bs)) by (unfold len; rewrite app_length; lia). apply Hchain. exact Hwf'.
  - cbn [build_items] in H. pose proof (Forall_inv Hv) as Hvb. pose proof (Forall_inv_tail Hv) as Hvt. cbn in Hvb.
    assert (Hwf1 : wf_bytes (c ++ b)) by (apply wf_bytes_app; auto).
    destruct (IH st (c ++ b) c' (Inv_app _ _ _ HI) Hwf1 Hvt H) as ((tail & Hc') & Hwf' & Hchain).
    split; [exists (b ++ tail); rewrite Hc', app_assoc; reflexivity|]. split; [exact Hwf'|].
    intros _. cbn [items_read_back]. replace (len c + len b) with (len (c ++ b)) by (unfold len; rewrite app_length; lia).
    apply Hchain. exact Hwf'.
Qed.
