(* C19 proofs, part 10: soundness of the reversed-name path of the compressor
   (compress_revname / lookup_entry_for_revname / RevName::build_in_message),
   on top of the invariant of ProofsCmpInv, and the theorem for messages that
   mix Name, RevName and other octets. *)
From Coq Require Import NArith List Bool Lia ZArith.
From Coq Require Import ZifyN ZifyBool ZifyNat.
From DV Require Import Base.Outcome Base.Bytes Base.Names Base.PName C19.Gen C19.Model C19.ModelCmp
  C19.ProofsOld C19.ProofsNew C19.ProofsAgree C19.ProofsCmpSound C19.ProofsCmpInv C19.ProofsRev.
Import ListNotations.
Local Open Scope N_scope.
Ltac Zify.zify_post_hook ::= Z.div_mod_to_equations.

(* labels in the order given *)
Definition rw (r : list label) : bytes := concat (map wire_label r).

Lemma rw_cons l r : rw (l :: r) = wire_label l ++ rw r.
Proof. reflexivity. Qed.
Lemma rw_wire_rel r : rw r = wire_rel r.
Proof. reflexivity. Qed.
Lemma rwire_rw n : rwire n = rw (rev n).
Proof. reflexivity. Qed.
Lemma rw_length_ge r : (length r <= length (rw r))%nat.
Proof. induction r as [|l r IH]; [cbn; lia|]. rewrite rw_cons, app_length. unfold wire_label. cbn [length]. lia. Qed.

Lemma next_label_rw l r : next_label (rw (l :: r)) = Some (wire_label l, rw r).
Proof. rewrite rw_cons. apply (next_label_wire l r). Qed.

Lemma next_label_nil : next_label [] = None.
Proof. reflexivity. Qed.

Lemma split_labels_rw r : forall fuel, (length r < fuel)%nat -> split_labels fuel (rw r) = map wire_label r.
Proof.
  induction r as [|l r IH]; intros [|fuel] Hf; try (cbn in Hf; lia); [reflexivity|].
  cbn [split_labels]. rewrite next_label_rw. cbn [map]. f_equal. apply IH. cbn in Hf. lia.
Qed.

Lemma unreverse_rw r : unreverse (rw r) = rw (rev r).
Proof.
  unfold unreverse. rewrite split_labels_rw by (pose proof (rw_length_ge r); lia).
  unfold rw. rewrite map_rev. reflexivity.
Qed.

Lemma unreverse_rwire n : unreverse (rwire n) = wire_rel n.
Proof. rewrite rwire_rw, unreverse_rw, rev_involutive. reflexivity. Qed.

Lemma to_rev_wire_abs n : to_rev (wire_abs n) = rev_wire n.
Proof.
  unfold to_rev. rewrite firstn_wire_abs. change (wire_rel n) with (rw n). rewrite unreverse_rw. reflexivity.
Qed.

(* ---- ends_with_ci / rev_match ---- *)
Lemma ends_with_split entry lab : ends_with_ci entry lab = true ->
  exists E1 B, entry = E1 ++ B /\ length B = length lab /\ lowers B = lowers lab /\
    firstn (length entry - length lab) entry = E1.
Proof.
  unfold ends_with_ci. intros H. apply andb_true_iff in H as [H1 H2]. apply N.leb_le in H1.
  apply eq_ci_spec in H2.
  exists (firstn (length entry - length lab) entry), (skipn (length entry - length lab) entry).
  split; [symmetry; apply firstn_skipn|]. split; [|split; [exact H2|reflexivity]].
  rewrite skipn_length. unfold len in H1. lia.
Qed.

Lemma lowers_app' a b : lowers (a ++ b) = lowers a ++ lowers b.
Proof. apply lowers_app. Qed.

Lemma rev_match_sound fuel : forall r entry rest entry2,
  rev_match fuel (rw r) entry = (rest, entry2) ->
  exists r_m r_rest B, r = r_m ++ r_rest /\ rest = rw r_rest /\ entry = entry2 ++ B /\
    lowers B = lowers (wire_rel (rev r_m)).
Proof.
  induction fuel as [|fuel IH]; intros r entry rest entry2 H.
  - cbn in H. inversion H; subst. exists [], r, []. repeat split; rewrite ?app_nil_r; auto.
  - cbn [rev_match] in H. destruct r as [|l r].
    + cbn in H. inversion H; subst. exists [], [], []. repeat split; rewrite ?app_nil_r; auto.
    + rewrite next_label_rw in H.
      destruct (ends_with_ci entry (wire_label l)) eqn:EW.
      * destruct (ends_with_split _ _ EW) as (E1 & Bl & He & Hl & Hci & Hf). rewrite Hf in H.
        destruct (IH _ _ _ _ H) as (r_m & r_rest & B & Hr & Hrest & HE1 & HB).
        exists (l :: r_m), r_rest, (B ++ Bl). split; [rewrite Hr; reflexivity|]. split; [exact Hrest|].
        split; [rewrite He, HE1, app_assoc; reflexivity|].
        cbn [rev]. rewrite wire_rel_app, !lowers_app', HB, Hci. unfold wire_rel. cbn [map concat]. rewrite app_nil_r. reflexivity.
      * inversion H; subst. exists [], (l :: r), []. repeat split; rewrite ?app_nil_r; auto.
Qed.

Lemma lowers_length' l : length (lowers l) = length l.
Proof. apply lowers_length. Qed.

(* ---- what a hit of the reversed lookup means (in terms of the forward labels) ---- *)
Lemma rev_lookup_from_sound k : forall i0 st c name parent poff l r hash i rest p,
  rev_lookup_from k i0 st c name parent poff (wire_label l) (rw r) hash = LrHit i rest p ->
  exists n_pre, rest = rwire n_pre /\
    hit_ok st c (rev (l :: r)) parent i (wire_rel n_pre) p /\
    attach_ok c (nth (N.to_nat i) (cs_pos st) 0) (nth (N.to_nat i) (cs_len st) 0) poff = true /\
    (i0 <= N.to_nat i < i0 + k)%nat.
Proof.
  induction k as [|k IH]; intros i0 st c name parent poff l r hash i rest p H; [discriminate H|].
  cbn [rev_lookup_from] in H.
  assert (Hnext : rev_lookup_from k (S i0) st c name parent poff (wire_label l) (rw r) hash = LrHit i rest p ->
     exists n_pre, rest = rwire n_pre /\ hit_ok st c (rev (l :: r)) parent i (wire_rel n_pre) p /\
       attach_ok c (nth (N.to_nat i) (cs_pos st) 0) (nth (N.to_nat i) (cs_len st) 0) poff = true /\ (i0 <= N.to_nat i < i0 + S k)%nat).
  { intros Q. destruct (IH _ _ _ _ _ _ _ _ _ _ _ _ Q) as (np & A & B & C & D). exists np. repeat split; auto; lia. }
  destruct (negb (nth i0 (cs_hash st) 0 =? hash) || negb (nth i0 (cs_par st) 0 =? parent)) eqn:F; [auto|].
  apply orb_false_iff in F as [_ F]. apply negb_false_iff, N.eqb_eq in F.
  destruct (nth i0 (cs_len st) 0 =? 0); [destruct cmp_skips_unused; [auto|discriminate H]|].
  destruct (slice_opt c (nth i0 (cs_pos st) 0) (nth i0 (cs_len st) 0)) as [entry|] eqn:Sl; [|discriminate H].
  change cmp_checks_attach with true in H. cbv iota in H.
  fold (attach_ok c (nth i0 (cs_pos st) 0) (nth i0 (cs_len st) 0) poff) in H.
  destruct (attach_ok c (nth i0 (cs_pos st) 0) (nth i0 (cs_len st) 0) poff) eqn:A; cbn [negb] in H; [|auto].
  destruct (ends_with_ci entry (wire_label l)) eqn:EW; cbn [negb] in H; [|auto].
  destruct (ends_with_split _ _ EW) as (E1 & Bl & He & Hl & Hci & Hf). rewrite Hf in H.
  destruct (rev_match (S (length (rw r))) (rw r) E1) as [rest0 entry2] eqn:RM.
  injection H as Hi Hr Hp. subst i rest0 p.
  destruct (rev_match_sound _ _ _ _ _ RM) as (r_m & r_rest & B & Hrr & Hrest & HE1 & HB).
  assert (Hlen : len entry = nth i0 (cs_len st) 0).
  { unfold slice_opt in Sl. destruct (N.ltb_spec (len c) (nth i0 (cs_pos st) 0 + nth i0 (cs_len st) 0)); [discriminate Sl|].
    inversion Sl. unfold len in *. rewrite firstn_length, skipn_length. lia. }
  exists (rev r_rest). split; [rewrite rwire_rw, rev_involutive; exact Hrest|]. rewrite Nat2N.id.
  split; [|split; [exact A|lia]].
  (* the matched forward suffix *)
  set (n_suf := rev (l :: r_m)).
  assert (HS : lowers (B ++ Bl) = lowers (wire_rel n_suf)).
  { unfold n_suf. cbn [rev]. rewrite wire_rel_app, !lowers_app', HB, Hci. unfold wire_rel. cbn [map concat]. rewrite app_nil_r. reflexivity. }
  assert (HSlen : length (B ++ Bl) = length (wire_rel n_suf)).
  { rewrite <- (lowers_length' (B ++ Bl)), HS, lowers_length'. reflexivity. }
  assert (Hentry : entry = entry2 ++ (B ++ Bl)) by (rewrite He, HE1, app_assoc; reflexivity).
  unfold hit_ok. rewrite !Nat2N.id. exists (rev r_rest), n_suf, entry.
  split. { unfold n_suf. cbn [rev]. rewrite Hrr, rev_app_distr, app_assoc. reflexivity. }
  split. { unfold n_suf. cbn [rev]. intros Q. apply app_eq_nil in Q as [_ Q]. discriminate Q. }
  split; [reflexivity|]. split; [exact F|]. split; [exact Sl|]. split; [exact Hlen|].
  split. { rewrite Hentry, app_length. lia. }
  split. { rewrite Hentry. unfold len. rewrite app_length, <- HSlen. lia. }
  rewrite <- HSlen, Hentry, lastn_app by reflexivity. exact HS.
Qed.

Lemma rwire_last n l : rwire (n ++ [l]) = rw (l :: rev n).
Proof. rewrite rwire_rw, rev_app_distr. reflexivity. Qed.

Lemma rw_nonnil r : r <> [] -> rw r <> [].
Proof. destruct r; [contradiction|]. intros _. rewrite rw_cons. discriminate. Qed.

Lemma exists_last_or_nil {A} (l : list A) : l = [] \/ exists l' a, l = l' ++ [a].
Proof. destruct l as [|x l]; [left; reflexivity|]. right. destruct (exists_last (l := x :: l) ltac:(discriminate)) as (l' & a & E). eauto. Qed.

Section REVSEQ.
Variable h : bytes.
Hypothesis Hh : length h = 12%nat.

Lemma rev_compress_loop_sound fuel : forall st c n_r parent poff M st' name' parent' poff',
  Inv st c -> Forall valid_label n_r -> LI h c parent poff M ->
  rev_compress_loop fuel st c (rwire n_r) parent poff = Ok (st', name', parent', poff') ->
  exists n_pre n_suf, n_r = n_pre ++ n_suf /\ name' = rwire n_pre /\ LI h c parent' poff' (n_suf ++ M) /\
    cs_pos st' = cs_pos st /\ cs_len st' = cs_len st /\ cs_par st' = cs_par st.
Proof.
  induction fuel as [|fuel IH]; intros st c n_r parent poff M st' name' parent' poff' HI Hv HL H; [discriminate H|].
  cbn [rev_compress_loop] in H.
  destruct (exists_last_or_nil n_r) as [->|(n0 & l & ->)].
  { cbn in H. inversion H; subst. exists [], []. auto 8. }
  rewrite rwire_last in H.
  destruct (rw (l :: rev n0)) as [|x nm] eqn:En; [exfalso; eapply (rw_nonnil (l :: rev n0)); [discriminate|exact En]|].
  rewrite <- En in *. clear En x nm.
  unfold rev_lookup in H. rewrite next_label_rw in H.
  destruct (rev_lookup_from 32 0 st c (rw (l :: rev n0)) parent poff (wire_label l) (rw (rev n0)) (hash_label (wire_label l)))
    as [|i rest p|s] eqn:L.
  - inversion H; subst. exists (n0 ++ [l]), []. rewrite app_nil_r, rwire_last. auto 8.
  - destruct (rev_lookup_from_sound _ _ _ _ _ _ _ _ _ _ _ _ _ L) as (np0 & Hrest & HK & HA & Hidx).
    assert (Erev : rev (l :: rev n0) = n0 ++ [l]) by (cbn [rev]; rewrite rev_involutive; reflexivity).
    rewrite Erev in HK.
    destruct (hit_extends h Hh st c (n0 ++ [l]) parent poff i (wire_rel np0) p M HI Hv HK HA (LI_weaken h _ _ _ _ HL))
      as (n_pre & n_suf & Hsplit & Hsuf & Hrest' & Hreads & Hplt).
    apply wire_rel_inj in Hrest'. subst np0.
    change cr_range_check with true in H. change cr_range_ge with true in H.
    change cr_range_add with 12 in H. change cr_range_bound with 16384 in H.
    unfold cmp_ge in H. cbn [andb] in H.
    destruct (N.leb_spec 16384 (p + 12)) as [Hr|Hr].
    + inversion H; subst. exists (n0 ++ [l]), []. rewrite app_nil_r, rwire_last. auto 8.
    + set (st1 := if cmp_lt cr_use_strict (N.max (len c + len rest) cr_use_floor) cr_use_bound
                  then mkC (set_nth (cs_use st) (N.to_nat i) (N.max (len c + len rest) cr_use_floor)) (cs_pos st) (cs_len st) (cs_par st) (cs_hash st)
                  else st) in H.
      assert (S1 : cs_pos st1 = cs_pos st /\ cs_len st1 = cs_len st /\ cs_par st1 = cs_par st).
      { unfold st1. destruct (cmp_lt _ _ _); auto. }
      destruct S1 as (S1a & S1b & S1c).
      rewrite Hrest in H.
      assert (Hvp : Forall valid_label n_pre) by (rewrite Hsplit in Hv; apply Forall_app in Hv; tauto).
      destruct (IH st1 c n_pre i (Some p) (n_suf ++ M) st' name' parent' poff') as (np2 & ns2 & E2 & En2 & L2 & Q1 & Q2 & Q3); auto.
      { apply (Inv_same st); auto. }
      { right. split; [lia|]. exists p. auto. }
      exists np2, (ns2 ++ n_suf). split; [rewrite Hsplit, E2, app_assoc; reflexivity|].
      split; [exact En2|]. split; [rewrite <- app_assoc; exact L2|].
      rewrite Q1, Q2, Q3. auto.
  - discriminate H.
Qed.
End REVSEQ.

Local Opaque compress_loop lookup_from last_label hash_label rev_compress_loop rev_lookup_from.

Section REVSEQ2.
Variable h : bytes.
Hypothesis Hh : length h = 12%nat.

(* what is written after the loop, and the state after registration *)
Lemma finish_sound st1 c n n_pre n_suf parent' poff' st2 bs :
  Inv st1 c -> Forall valid_label n -> (wire_len n <= 254)%nat -> n = n_pre ++ n_suf ->
  LI h c parent' poff' n_suf ->
  (st2 = st1 \/ (n_pre <> [] /\ len c + 12 < 16384 /\ exists use' hash' idx,
      st2 = mkC use' (set_nth (cs_pos st1) idx (len c)) (set_nth (cs_len st1) idx (len (wire_rel n_pre)))
                (set_nth (cs_par st1) idx parent') hash')) ->
  bs = match poff' with
       | None => wire_abs n
       | Some p => wire_rel n_pre ++ [(p + 49164) / 256; (p + 49164) mod 256]
       end ->
  Inv st2 (c ++ bs) /\ wf_bytes bs /\
  exists n', canon n' = canon n /\
    dpath R_new (h ++ c ++ bs) (12 + len c) (12 + len c) 0 n' (12 + len c + len bs).
Proof.
  intros HI1 Hv Hl Hsplit HL Hreg Hbs.
  assert (Hvp : Forall valid_label n_pre /\ Forall valid_label n_suf) by (rewrite Hsplit in Hv; apply Forall_app; exact Hv).
  destruct Hvp as [Hvp Hvs].
  assert (Hwl : wire_len n = (wire_len n_pre + wire_len n_suf)%nat) by (rewrite Hsplit; apply wire_len_app).
  destruct HL as [(-> & -> & Hs0)|(Hp64 & p & -> & Hp12 & Hplt & (M' & HcanM & (b1 & Gb1 & Hb1) & DM))].
  - subst n_suf. rewrite app_nil_r in Hsplit. subst n_pre bs.
    split.
    { destruct Hreg as [->|(Hnn & Hr & use' & hash' & idx & ->)]; [apply Inv_app; exact HI1|].
      apply Inv_register; [apply Inv_app; exact HI1|].
      intros _. split; [|intros Q; contradiction].
      intros _. unfold wire_abs. rewrite app_assoc.
      replace (len c + len (wire_rel n)) with (len (c ++ wire_rel n)) by (unfold len; rewrite app_length; lia).
      apply byte_at_mid. }
    split; [apply wf_wire_abs; exact Hv|].
    destruct (verbatim_reads h Hh c n [] (c ++ wire_abs n)) as (n' & Hcan & D); auto.
    { rewrite app_nil_r. reflexivity. }
    exists n'. split; [exact Hcan|]. apply D.
  - set (v := p + 49164) in *. subst bs.
    destruct (ptr_val_of v p eq_refl Hp12) as [Hhi Hpv].
    set (name' := wire_rel n_pre) in *.
    assert (Hbytes : byte_at (c ++ name' ++ [v / 256; v mod 256]) (len c + len name') = Some (v / 256) /\
                     byte_at (c ++ name' ++ [v / 256; v mod 256]) (len c + len name' + 1) = Some (v mod 256)).
    { split.
      - replace (len c + len name') with (len (c ++ name')) by (unfold len; rewrite app_length; lia).
        rewrite app_assoc. apply byte_at_mid.
      - replace (len c + len name' + 1) with (len ((c ++ name') ++ [v / 256])) by (unfold len; rewrite !app_length; cbn [length]; lia).
        replace (c ++ name' ++ [v / 256; v mod 256]) with (((c ++ name') ++ [v / 256]) ++ v mod 256 :: []) by (rewrite <- !app_assoc; reflexivity).
        apply byte_at_mid. }
    destruct Hbytes as [Bhi Blo].
    split.
    { destruct Hreg as [->|(Hnn & Hr & use' & hash' & idx & ->)]; [apply Inv_app; exact HI1|].
      apply Inv_register; [apply Inv_app; exact HI1|].
      intros _. split; [intros Q; contradiction|].
      intros _. exists (v / 256), (v mod 256). repeat split; auto; lia. }
    split.
    { apply wf_bytes_app. split; [apply wf_wire_rel; exact Hvp|]. repeat constructor; lia. }
    set (c' := c ++ name' ++ [v / 256; v mod 256]).
    destruct (DM (N.of_nat (wire_len n_pre)) ltac:(lia)) as (e1 & Dt0).
    assert (Dt : dpath R_new (h ++ c') (12 + p) (12 + p) (N.of_nat (wire_len n_pre)) M' e1).
    { unfold c'. rewrite app_assoc. apply dpath_extend. exact Dt0. }
    destruct (path_ci h c' Hh n_pre Hvp c name' [v / 256; v mod 256] eq_refl eq_refl) as (np' & Hcan_p & _ & _ & _ & Pp).
    exists (np' ++ M'). split.
    { rewrite Hsplit. unfold canon in *. rewrite !map_app. f_equal; assumption. }
    replace (12 + len c + len (name' ++ [v / 256; v mod 256])) with (12 + len c + len name' + 2)
      by (unfold len; rewrite app_length; cbn [length]; lia).
    apply (Pp 0 ltac:(lia)). replace (0 + N.of_nat (wire_len n_pre)) with (N.of_nat (wire_len n_pre)) by lia.
    eapply dp_ptr with (t := 12 + p); [|exact Dt].
    replace (12 + p) with (ptr_val (v / 256) (v mod 256)) by lia.
    eapply pc_last.
    + replace (12 + len c + len name') with (12 + (len c + len name')) by lia. rewrite get_byte_at by exact Hh. exact Bhi.
    + exact Hhi.
    + replace (12 + len c + len name' + 1) with (12 + (len c + len name' + 1)) by lia. rewrite get_byte_at by exact Hh. exact Blo.
    + unfold R_new. lia.
    + rewrite Hpv. replace (p + 12) with (12 + p) by lia. unfold c'. rewrite app_assoc. apply get_app_l. exact Gb1.
    + exact Hb1.
Qed.

(* one push through the reversed-name path *)
Lemma build_revname_sound st c n bs st' :
  Inv st c -> Forall valid_label n -> (wire_len n <= 254)%nat ->
  build_revname st c (to_rev (wire_abs n)) = Ok (bs, st') ->
  Inv st' (c ++ bs) /\ wf_bytes bs /\
  exists n', canon n' = canon n /\
    dpath R_new (h ++ c ++ bs) (12 + len c) (12 + len c) 0 n' (12 + len c + len bs).
Proof.
  intros HI Hv Hl H. rewrite to_rev_wire_abs in H. unfold build_revname in H.
  destruct (compress_revname st c (rev_wire n)) as [[res st2]| | |] eqn:EC; cbn [bind] in H; try discriminate H.
  unfold compress_revname, rev_wire in EC. cbn [skipn] in EC.
  destruct n as [|l0 n0].
  { cbn in EC. inversion EC; subst. cbn in H. inversion H; subst.
    eapply finish_sound with (n_pre := []) (n_suf := []) (parent' := 64) (poff' := None) (st1 := st') (n := []);
      [exact HI|constructor|cbn; lia|reflexivity|left; auto|left; reflexivity|reflexivity]. }
  set (n := l0 :: n0) in *.
  assert (Hn : n <> []) by discriminate.
  destruct (rwire n) as [|x nm] eqn:En.
  { exfalso. rewrite rwire_rw in En. eapply rw_nonnil; [|exact En]. unfold n. cbn [rev]. intros Q. apply app_eq_nil in Q as [_ Q]. discriminate Q. }
  cbv beta iota in EC.
  destruct (rev_compress_loop (S (length (x :: nm))) st c (x :: nm) cr_no_parent None)
    as [[[[st1 name'] parent'] poff']| | |] eqn:EL; cbn [bind] in EC; try discriminate EC.
  rewrite <- En in EL.
  destruct (rev_compress_loop_sound h Hh _ st c n cr_no_parent None [] st1 name' parent' poff' HI Hv ltac:(left; auto) EL) as
    (n_pre & n_suf & Hsplit & Hname' & HL & Q1 & Q2 & Q3).
  rewrite app_nil_r in HL.
  assert (HI1 : Inv st1 c) by (apply (Inv_same st); auto).
  assert (Hvp : Forall valid_label n_pre) by (rewrite Hsplit in Hv; apply Forall_app in Hv; tauto).
  assert (Hnl : len (wire_rel n_pre) mod 256 = len (wire_rel n_pre)).
  { apply N.mod_small. unfold len. rewrite wire_rel_length. rewrite Hsplit, wire_len_app in Hl. lia. }
  assert (Hlenr : len name' = len (wire_rel n_pre)).
  { rewrite Hname'. unfold len. rewrite rwire_length. reflexivity. }
  (* registration *)
  change cr_reg_strict with true in EC. change cr_reg_add with 12 in EC. change cr_reg_bound with 16384 in EC.
  unfold cmp_lt in EC.
  assert (Hreg : exists st2', (match name' with
                 | [] => Ok st1
                 | _ :: _ => if len c + 12 <? 16384 then
                     match next_label name' with
                     | Some (first, _) => Ok (mkC (set_nth (cs_use st1) (first_min (cs_use st1)) (len c mod 65536))
                           (set_nth (cs_pos st1) (first_min (cs_use st1)) (len c mod 65536))
                           (set_nth (cs_len st1) (first_min (cs_use st1)) (len name' mod 256))
                           (set_nth (cs_par st1) (first_min (cs_use st1)) parent')
                           (set_nth (cs_hash st1) (first_min (cs_use st1)) (hash_label first)))
                     | None => Panic PC_UNCHECKED
                     end else Ok st1
                 end) = Ok st2' /\ st2' = st2 /\ res = match poff' with Some o => Some (name', o) | None => None end).
  { destruct (match name' with [] => Ok st1 | _ :: _ => _ end) as [s2| | |] eqn:ER; cbn [bind] in EC; try discriminate EC.
    exists s2. inversion EC. auto. }
  destruct Hreg as (st2' & ER & -> & Eres).
  assert (Hst2 : st2 = st1 \/ (n_pre <> [] /\ len c + 12 < 16384 /\ exists use' hash' idx,
      st2 = mkC use' (set_nth (cs_pos st1) idx (len c)) (set_nth (cs_len st1) idx (len (wire_rel n_pre)))
                (set_nth (cs_par st1) idx parent') hash')).
  { destruct name' as [|y nm'] eqn:En'; [inversion ER; auto|]. rewrite <- En' in *.
    destruct (N.ltb_spec (len c + 12) 16384) as [Hr|Hr]; [|inversion ER; auto].
    destruct (next_label name') as [[first rem]|]; [|discriminate ER].
    inversion ER. right. split.
    { intros ->. rewrite Hname' in En'. discriminate En'. }
    split; [exact Hr|]. rewrite (N.mod_small (len c) 65536) by lia. rewrite Hlenr, Hnl. eauto. }
  subst res.
  assert (Hbs : st' = st2 /\ bs = match poff' with
       | None => wire_abs n
       | Some p => wire_rel n_pre ++ [(p + 49164) / 256; (p + 49164) mod 256]
       end).
  { destruct poff' as [p|].
    - change bim_ptr_add with 49164 in H.
      assert (Hp : p + 12 < 16384).
      { destruct HL as [(_ & Q & _)|(_ & p1 & Q & Hp1 & _)]; [discriminate Q|]. inversion Q; subst. exact Hp1. }
      destruct (N.ltb_spec 65535 (p + 49164)); [lia|]. inversion H; subst.
      rewrite unreverse_rwire. auto.
    - inversion H; subst. unfold rev_wire. cbn [skipn]. rewrite unreverse_rwire. auto. }
  destruct Hbs as [-> Hbs].
  eapply (finish_sound st1 c n n_pre n_suf parent' poff' st2); eauto.
Qed.

(* ---- messages that mix Name, RevName and other octets ---- *)
Inductive mitem := MName (n : name) | MRev (n : name) | MRaw (b : bytes).

Fixpoint build_mixed (st : cstate) (c : bytes) (l : list mitem) : outcome bytes :=
  match l with
  | [] => Ok c
  | MRaw b :: t => build_mixed st (c ++ b) t
  | MName n :: t => do r <- build_name st c (wire_abs n); let '(bs, st') := r in build_mixed st' (c ++ bs) t
  | MRev n :: t => do r <- build_revname st c (to_rev (wire_abs n)); let '(bs, st') := r in build_mixed st' (c ++ bs) t
  end.

Definition mitem_ok (i : mitem) : Prop :=
  match i with MName n | MRev n => valid_abs n | MRaw b => wf_bytes b end.

Fixpoint mixed_read_back (c' : bytes) (start : N) (l : list mitem) : Prop :=
  match l with
  | [] => start = len c'
  | MRaw b :: t => mixed_read_back c' (start + len b) t
  | MName n :: t | MRev n :: t =>
      exists n' e, canon n' = canon n /\
        new_split c' start = Ok (wire_abs n', e) /\ rev_split c' start = Ok (rev_wire n', e) /\
        decode_name (h ++ c') (12 + start) (mlen (h ++ c')) = Ok (n', 12 + e) /\
        mixed_read_back c' e t
  end.

Theorem new_compressor_sound_mixed : forall l st c c',
  Inv st c -> wf_bytes c -> Forall mitem_ok l ->
  build_mixed st c l = Ok c' ->
  (exists tail, c' = c ++ tail) /\ wf_bytes c' /\ (wf_bytes c' -> mixed_read_back c' (len c) l).
Proof.
  induction l as [|[n|n|b] t IH]; intros st c c' HI Hwf Hv H.
  - cbn in H. inversion H; subst. split; [exists []; rewrite app_nil_r; reflexivity|]. split; [exact Hwf|reflexivity].
  - cbn [build_mixed] in H.
    destruct (build_name st c (wire_abs n)) as [[bs st1]| | |] eqn:B; cbn [bind] in H; try discriminate H.
    pose proof (Forall_inv Hv) as [Hvn Hln]. pose proof (Forall_inv_tail Hv) as Hvt.
    destruct (build_name_sound h Hh st c n bs st1 HI Hvn Hln B) as (HI1 & Hwfb & n' & Hcan & D).
    assert (Hwf1 : wf_bytes (c ++ bs)) by (apply wf_bytes_app; auto).
    destruct (IH st1 (c ++ bs) c' HI1 Hwf1 Hvt H) as ((tail & Hc') & Hwf' & Hchain).
    split; [exists (bs ++ tail); rewrite Hc', app_assoc; reflexivity|]. split; [exact Hwf'|].
    intros _. cbn [mixed_read_back]. exists n', (len c + len bs). split; [exact Hcan|].
    assert (D' : dpath R_new (h ++ c') (12 + len c) (12 + len c) 0 n' (12 + (len c + len bs))).
    { rewrite Hc'. replace (h ++ (c ++ bs) ++ tail) with ((h ++ c ++ bs) ++ tail) by (rewrite <- !app_assoc; reflexivity).
      apply dpath_extend. replace (12 + (len c + len bs)) with (12 + len c + len bs) by lia. exact D. }
    destruct (new_split_complete h c' Hh Hwf' _ _ _ D') as [S He].
    split; [rewrite S; do 2 f_equal; lia|]. split.
    { destruct (rev_split_is_path h c' Hh Hwf' (len c)) as [_ Q]. rewrite (Q _ _ D'). do 2 f_equal. lia. }
    split.
    + apply old_complete. eapply dpath_mono; [|apply N.le_refl|exact D']. unfold R_new, R_old. intros; lia.
    + replace (len c + len bs) with (len (c ++ bs)) by (unfold len; rewrite app_length; lia). apply Hchain. exact Hwf'.
  - cbn [build_mixed] in H.
    destruct (build_revname st c (to_rev (wire_abs n))) as [[bs st1]| | |] eqn:B; cbn [bind] in H; try discriminate H.
    pose proof (Forall_inv Hv) as [Hvn Hln]. pose proof (Forall_inv_tail Hv) as Hvt.
    destruct (build_revname_sound st c n bs st1 HI Hvn Hln B) as (HI1 & Hwfb & n' & Hcan & D).
    assert (Hwf1 : wf_bytes (c ++ bs)) by (apply wf_bytes_app; auto).
    destruct (IH st1 (c ++ bs) c' HI1 Hwf1 Hvt H) as ((tail & Hc') & Hwf' & Hchain).
    split; [exists (bs ++ tail); rewrite Hc', app_assoc; reflexivity|]. split; [exact Hwf'|].
    intros _. cbn [mixed_read_back]. exists n', (len c + len bs). split; [exact Hcan|].
    assert (D' : dpath R_new (h ++ c') (12 + len c) (12 + len c) 0 n' (12 + (len c + len bs))).
    { rewrite Hc'. replace (h ++ (c ++ bs) ++ tail) with ((h ++ c ++ bs) ++ tail) by (rewrite <- !app_assoc; reflexivity).
      apply dpath_extend. replace (12 + (len c + len bs)) with (12 + len c + len bs) by lia. exact D. }
    destruct (new_split_complete h c' Hh Hwf' _ _ _ D') as [S He].
    split; [rewrite S; do 2 f_equal; lia|]. split.
    { destruct (rev_split_is_path h c' Hh Hwf' (len c)) as [_ Q]. rewrite (Q _ _ D'). do 2 f_equal. lia. }
    split.
    + apply old_complete. eapply dpath_mono; [|apply N.le_refl|exact D']. unfold R_new, R_old. intros; lia.
    + replace (len c + len bs) with (len (c ++ bs)) by (unfold len; rewrite app_length; lia). apply Hchain. exact Hwf'.
  - cbn [build_mixed] in H. pose proof (Forall_inv Hv) as Hvb. pose proof (Forall_inv_tail Hv) as Hvt. cbn in Hvb.
    assert (Hwf1 : wf_bytes (c ++ b)) by (apply wf_bytes_app; auto).
    destruct (IH st (c ++ b) c' (Inv_app _ _ _ HI) Hwf1 Hvt H) as ((tail & Hc') & Hwf' & Hchain).
    split; [exists (b ++ tail); rewrite Hc', app_assoc; reflexivity|]. split; [exact Hwf'|].
    intros _. cbn [mixed_read_back]. replace (len c + len b) with (len (c ++ b)) by (unfold len; rewrite app_length; lia).
    apply Hchain. exact Hwf'.
Qed.
End REVSEQ2.

Example mixed_example :
  let a := [[97];[99;111;109]] in let b := [[98];[97];[99;111;109]] in
  exists c, build_mixed cs_new [] [MRev a; MRaw [0;1;0;1]; MName b; MRev b] = Ok c /\
            c = wire_abs a ++ [0;1;0;1] ++ [1;98;192;12] ++ [192;23].
Proof. eexists. split; vm_compute; reflexivity. Qed.
