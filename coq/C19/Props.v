(* C19 -- property theorems only.  Proofs live in C19/Proofs*.v. *)
From Coq Require Import NArith List.
From DV Require Import Base.Outcome Base.Bytes Base.Names Base.PName C19.Gen C19.Model
  C19.ModelCmp C19.ProofsDec C19.ProofsOld C19.ProofsNew C19.ProofsAgree C19.ProofsCmp C19.ProofsCmpSound C19.ProofsCmpInv C19.ProofsRev C19.ModelEdns C19.ModelMsg C19.ProofsItems C19.ProofsEdns C19.ProofsCmpRev C19.ProofsCmpRegions C19.ProofsMsg C19.ProofsMsgIff C19.ProofsFlat C19.ProofsMsgWhole C19.ProofsCmpPatch C19.ProofsFlatSound C01.Model C01.Model3 C05.OptModel.
Import ListNotations.
Local Open Scope N_scope.

(* NameBuf::{split,parse}_message_bytes never panic and never loop, for every
   contents and every start offset *)
Theorem C19_new_split_total : forall c start, no_panic (new_split c start).
Proof. exact new_split_total. Qed.
Print Assumptions C19_new_split_total.

Theorem C19_new_parse_total : forall c start, no_panic (new_parse c start).
Proof. exact new_parse_total. Qed.
Print Assumptions C19_new_parse_total.

Theorem C19_new_parse_is_split : forall c start w,
  new_parse c start = Ok w <-> new_split c start = Ok (w, len c).
Proof. exact new_parse_is_split. Qed.
Print Assumptions C19_new_parse_is_split.

(* both readers decode exactly the paths of the message: same abstract meaning,
   they differ only in the pointer rule (R_old: target < pointer position;
   R_new: 12 <= target < start of the current segment) *)
Theorem C19_old_reader_is_path : forall m p n e,
  decode_name m p (mlen m) = Ok (n, e) <-> dpath R_old m p p 0 n e.
Proof. intros; split; [apply old_sound|apply old_complete]. Qed.
Print Assumptions C19_old_reader_is_path.

Theorem C19_new_reader_is_path : forall h c, length h = 12%nat -> wf_bytes c ->
  forall start,
  (forall w e, new_split c start = Ok (w, e) ->
     exists n, w = wire_abs n /\ dpath R_new (h ++ c) (12 + start) (12 + start) 0 n (12 + e)) /\
  (forall n e, dpath R_new (h ++ c) (12 + start) (12 + start) 0 n e ->
     new_split c start = Ok (wire_abs n, e - 12) /\ 12 <= e).
Proof. intros h c Hh Hwf start. split; [apply new_split_sound|apply new_split_complete]; assumption. Qed.
Print Assumptions C19_new_reader_is_path.

(* whatever the new reader accepts the old reader accepts, with the same
   labels and the same end position: no exception *)
Theorem C19_new_refines_old : forall h c, length h = 12%nat -> wf_bytes c ->
  forall start w e, new_split c start = Ok (w, e) ->
  exists n, decode_name (h ++ c) (12 + start) (mlen (h ++ c)) = Ok (n, 12 + e) /\ w = wire_abs n.
Proof. exact new_refines_old. Qed.
Print Assumptions C19_new_refines_old.

(* C19 for names, outside the two known classes: both accept or both reject,
   and when they accept they reconstruct the same labels and end position *)
Theorem C19_agree_outside_known : forall h c, length h = 12%nat -> wf_bytes c ->
  forall start,
  ~ PtrIntoOwnSegment (h ++ c) (12 + start) -> ~ PtrIntoHeader (h ++ c) (12 + start) ->
  is_ok (new_split c start) = is_ok (decode_name (h ++ c) (12 + start) (mlen (h ++ c))) /\
  (forall w e, new_split c start = Ok (w, e) ->
     exists n, decode_name (h ++ c) (12 + start) (mlen (h ++ c)) = Ok (n, 12 + e) /\ w = wire_abs n) /\
  (forall n e, decode_name (h ++ c) (12 + start) (mlen (h ++ c)) = Ok (n, e) ->
     12 <= e /\ new_split c start = Ok (wire_abs n, e - 12)).
Proof. exact agree_outside_known. Qed.
Print Assumptions C19_agree_outside_known.

(* ... and the full statement is false: known finding ptr_into_own_segment *)
Theorem C19_agree_refuted_own_segment :
  exists c n e, c19_old (hdr0 ++ c) 12 = Ok (n, e) /\ new_split c 0 = Err E_PARSE /\
    PtrIntoOwnSegment (hdr0 ++ c) 12.
Proof. exists [3;1;122;0;192;13]. eexists. eexists. exact agree_refuted_own_segment. Qed.
Print Assumptions C19_agree_refuted_own_segment.

(* finding ptr_into_header: the old reader follows pointers into the 12-octet header *)
Theorem C19_agree_refuted_header :
  exists c n e, c19_old (hdr0 ++ c) 12 = Ok (n, e) /\ new_split c 0 = Err E_PARSE /\
    PtrIntoHeader (hdr0 ++ c) 12.
Proof. exists [192;11]. eexists. eexists. exact agree_refuted_header. Qed.
Print Assumptions C19_agree_refuted_header.

(* ---- the new name compressor (model: C19/ModelCmp.v, T2 kind `bim`) ---- *)
(* with the range check in place every offset handed out fits a 14-bit pointer
   (header included) and `addr + 0xC00C` cannot overflow, for all states,
   contents and names *)
Theorem C19_compress_name_pointer_range : range_fixed ->
  forall st c wire rest o st', compress_name st c wire = Ok (Some (rest, o), st') ->
    o + 12 < 16384 /\ o + 49164 <= 65535.
Proof. exact compress_name_pointer_range. Qed.
Print Assumptions C19_compress_name_pointer_range.

(* what a lookup hit means, for EVERY compressor state, contents and name: the
   name is cut on a label boundary and the octets at the returned offset equal
   the cut-off labels up to u8::to_ascii_lowercase, length octets included *)
Theorem C19_lookup_hit_sound : forall k i0 st c n parent poff hash i rest h p, n <> [] ->
  lookup_from k i0 st c (wire_rel n) parent poff hash = LkHit i rest h p ->
  hit_ok st c n parent i rest p.
Proof. exact lookup_hit_sound. Qed.
Print Assumptions C19_lookup_hit_sound.

(* new_compressor_sound, single entry / no eviction: a fresh compressor, any
   contents written before, any two valid names: whatever Name::build_in_message
   writes (verbatim or rest + pointer), both names read back equal up to case,
   through the new AND the old reader, ending exactly at the end of the name *)
Theorem C19_new_compressor_sound_two_names : forall (h c0 : bytes) (n1 n2 : name) (c : bytes),
  length h = 12%nat -> wf_bytes c0 -> valid_abs n1 -> valid_abs n2 ->
  build_names cs_new c0 [wire_abs n1; wire_abs n2] = Ok c ->
  (exists n1', canon n1' = canon n1 /\
     new_split c (len c0) = Ok (wire_abs n1', len c0 + len (wire_abs n1)) /\
     decode_name (h ++ c) (12 + len c0) (mlen (h ++ c)) = Ok (n1', 12 + (len c0 + len (wire_abs n1)))) /\
  (exists n2', canon n2' = canon n2 /\
     new_split c (len c0 + len (wire_abs n1)) = Ok (wire_abs n2', len c) /\
     decode_name (h ++ c) (12 + (len c0 + len (wire_abs n1))) (mlen (h ++ c)) = Ok (n2', 12 + len c)).
Proof. exact compressor_two_names_sound. Qed.
Print Assumptions C19_new_compressor_sound_two_names.

(* new_compressor_sound in full for the Name path: a fresh compressor, any
   earlier contents, ANY list of valid names - more than the 32 slots, so slots
   are evicted and reused - : every name reads back equal up to case through the
   new and the old reader, each starting where the previous one ended *)
Theorem C19_new_compressor_sound : forall (h c0 : bytes) (ns : list name) (c : bytes),
  length h = 12%nat -> wf_bytes c0 -> Forall valid_abs ns ->
  build_names cs_new c0 (map wire_abs ns) = Ok c ->
  reads_back h c (len c0) ns.
Proof. exact new_compressor_sound. Qed.
Print Assumptions C19_new_compressor_sound.

(* ... and with arbitrary other octets written between the names, from any
   state that satisfies the invariant *)
Theorem C19_new_compressor_sound_items : forall (h : bytes), length h = 12%nat ->
  forall l st c c', Inv st c -> wf_bytes c -> Forall item_ok l ->
  build_items st c l = Ok c' ->
  (exists tail, c' = c ++ tail) /\ wf_bytes c' /\ (wf_bytes c' -> items_read_back h c' (len c) l).
Proof. exact new_compressor_sound_items. Qed.
Print Assumptions C19_new_compressor_sound_items.

(* RevNameBuf::split_message_bytes runs in lockstep with the NameBuf version:
   same accept/reject, same end, same labels (reversed behind the root label) *)
Theorem C19_rev_split_lockstep : forall c start, top_rel (new_split c start) (rev_split c start).
Proof. exact rev_split_lockstep. Qed.
Print Assumptions C19_rev_split_lockstep.

Theorem C19_rev_split_total : forall c start, no_panic (rev_split c start).
Proof. exact rev_split_total. Qed.
Print Assumptions C19_rev_split_total.

(* hence the reversed-name reader decodes exactly the same paths *)
Theorem C19_rev_reader_is_path : forall h c, length h = 12%nat -> wf_bytes c -> forall start,
  (forall rw e, rev_split c start = Ok (rw, e) ->
     exists n, rw = rev_wire n /\ dpath R_new (h ++ c) (12 + start) (12 + start) 0 n (12 + e)) /\
  (forall n e, dpath R_new (h ++ c) (12 + start) (12 + start) 0 n e ->
     rev_split c start = Ok (rev_wire n, e - 12)).
Proof. exact rev_split_is_path. Qed.
Print Assumptions C19_rev_reader_is_path.

(* Question / Record of the new API against C01's model of the old
   Question::parse / ParsedRecord::parse: whatever the new reader returns the old
   one returns (same owner labels, fields, RDATA extent, end), and outside the
   known classes of the owner name the converse holds *)
Theorem C19_question_new_to_old : forall h c, length h = 12%nat -> wf_bytes c ->
  forall start w ty cl e, new_question c start = Ok (w, ty, cl, e) ->
  exists q n, question_parse (h ++ c) (12 + start) (mlen (h ++ c)) = Ok q /\
    pname_labels (h ++ c) (q_name q) = Ok (n, true) /\
    w = wire_abs n /\ q_type q = ty /\ q_class q = cl /\ q_end q = 12 + e.
Proof. exact question_new_to_old. Qed.
Print Assumptions C19_question_new_to_old.

Theorem C19_question_old_to_new : forall h c, length h = 12%nat -> wf_bytes c ->
  forall start q, kclass (h ++ c) (12 + start) = KNone ->
  question_parse (h ++ c) (12 + start) (mlen (h ++ c)) = Ok q ->
  exists n, pname_labels (h ++ c) (q_name q) = Ok (n, true) /\ 16 <= q_end q /\
    new_question c start = Ok (wire_abs n, q_type q, q_class q, q_end q - 12).
Proof. exact question_old_to_new. Qed.
Print Assumptions C19_question_old_to_new.

Theorem C19_record_new_to_old : forall h c, length h = 12%nat -> wf_bytes c ->
  forall start w ty cl ttl d e, new_record c start = Ok (w, ty, cl, ttl, d, e) ->
  exists r n, record_parse (h ++ c) (12 + start) (mlen (h ++ c)) = Ok r /\
    pname_labels (h ++ c) (rr_owner r) = Ok (n, true) /\
    w = wire_abs n /\ rr_type r = ty /\ rr_class r = cl /\ rr_ttl r = ttl /\
    rr_data r = 12 + d /\ rr_end r = 12 + e /\ rr_rdlen r = e - d.
Proof. exact record_new_to_old. Qed.
Print Assumptions C19_record_new_to_old.

Theorem C19_record_old_to_new : forall h c, length h = 12%nat -> wf_bytes c ->
  forall start r, kclass (h ++ c) (12 + start) = KNone ->
  record_parse (h ++ c) (12 + start) (mlen (h ++ c)) = Ok r ->
  exists n, pname_labels (h ++ c) (rr_owner r) = Ok (n, true) /\ 22 <= rr_data r /\
    new_record c start = Ok (wire_abs n, rr_type r, rr_class r, rr_ttl r, rr_data r - 12, rr_end r - 12).
Proof. exact record_old_to_new. Qed.
Print Assumptions C19_record_old_to_new.

(* the EDNS record of the new API *)
Theorem C19_edns_roundtrip : forall e b rest, edns_ok e -> nedns_build e = Some b ->
  nedns_split (b ++ rest) = Ok (e, rest).
Proof. exact edns_roundtrip. Qed.
Print Assumptions C19_edns_roundtrip.

Theorem C19_edns_old_view : forall e b, edns_ok e -> nedns_build e = Some b ->
  firstn 3 b = [0; 0; 41] /\
  be_val (firstn 2 (skipn 3 b)) = e_udp e /\
  let ttl := be_val (firstn 4 (skipn 5 b)) in
  N.shiftr ttl old_opt_ext_shift mod 256 = e_ext e /\
  N.shiftr ttl old_opt_ver_shift mod 256 = e_ver e /\
  ttl mod 65536 = e_flags e /\
  be_val (firstn 2 (skipn 9 b)) = len (e_data e) /\ skipn 11 b = e_data e.
Proof. exact edns_old_view. Qed.
Print Assumptions C19_edns_old_view.

(* option framing: the new Opt accepts exactly what C05's model of the old
   Opt::from_octets + iteration accepts *)
Theorem C19_edns_framing_agrees : forall b, nopt_ok b = is_ok (opt_parse b).
Proof. exact edns_framing_agrees. Qed.
Print Assumptions C19_edns_framing_agrees.

(* ---- round 3 ---- *)
(* the exact-parse entry point of RevNameBuf runs in lockstep with NameBuf's;
   all four name readers decode the same paths *)
Theorem C19_rev_parse_lockstep : forall c start, top_rel_p (new_parse c start) (rev_parse c start).
Proof. exact rev_parse_lockstep. Qed.
Print Assumptions C19_rev_parse_lockstep.

Theorem C19_four_readers : forall c start ls,
  (new_parse c start = Ok (wire_abs ls) <-> new_split c start = Ok (wire_abs ls, len c)) /\
  (rev_parse c start = Ok (rev_wire ls) <-> new_split c start = Ok (wire_abs ls, len c)) /\
  (rev_split c start = Ok (rev_wire ls, len c) <-> new_split c start = Ok (wire_abs ls, len c)).
Proof. exact four_readers. Qed.
Print Assumptions C19_four_readers.

(* new_compressor_sound for messages mixing Name::build_in_message,
   RevName::build_in_message and any other octets, any number, with eviction *)
Theorem C19_new_compressor_sound_mixed : forall h, length h = 12%nat -> forall l st c c',
  Inv st c -> wf_bytes c -> Forall mitem_ok l ->
  build_mixed st c l = Ok c' ->
  (exists tail, c' = c ++ tail) /\ wf_bytes c' /\ (wf_bytes c' -> mixed_read_back h c' (len c) l).
Proof. exact new_compressor_sound_mixed. Qed.
Print Assumptions C19_new_compressor_sound_mixed.

(* octets outside the compressor's entries may be rewritten later (the RDATA
   size prefix): the compressor reads the contents only inside entry extents *)
Theorem C19_patch_invariant : forall st A X Y B w, length X = length Y ->
  (forall i, nth i (cs_len st) 0 <> 0 ->
     nth i (cs_pos st) 0 + nth i (cs_len st) 0 + 2 <= len A \/ len A + len X <= nth i (cs_pos st) 0) ->
  compress_name st (A ++ X ++ B) w = compress_name st (A ++ Y ++ B) w.
Proof. exact patch_invariant. Qed.
Print Assumptions C19_patch_invariant.

Theorem C19_reserved_after_extents : forall st c i, Inv st c -> nth i (cs_len st) 0 <> 0 -> ext_end st i <= len c.
Proof. exact reserved_after_extents. Qed.
Print Assumptions C19_reserved_after_extents.

(* MessageParser enforces the header counts *)
Theorem C19_mp_counts_enforced : forall m items off ok, mp_run m = Some (Ok (items, off, ok)) ->
  let announced := (N.to_nat (u16_of m 4) + N.to_nat (u16_of m 6) + N.to_nat (u16_of m 8) + N.to_nat (u16_of m 10))%nat in
  (ok = true <-> length items = announced) /\ (length items <= announced)%nat.
Proof. exact mp_counts_enforced. Qed.
Print Assumptions C19_mp_counts_enforced.

Theorem C19_mp_item_new_to_old : forall (h c : bytes), length h = 12%nat -> wf_bytes c ->
  forall sec off it off', mp_item c sec off = Ok (it, off') -> old_reads (h ++ c) (12 + off) it (12 + off').
Proof. exact mp_item_new_to_old. Qed.
Print Assumptions C19_mp_item_new_to_old.

(* ---- round 4: MessageParser against C01's section iterators ---- *)
(* per item, both directions: the old item parser (C01 question_parse /
   record_parse) and MessageParser's item parser accept together, with the same
   end; premises of old -> new: no pointer of a known class, no `0 0 41` item,
   no OPT record *)
Theorem C19_mp_item_iff : forall h c, length h = 12%nat -> wf_bytes c ->
  (forall p, kclass (h ++ c) p = KNone) ->
  (forall off, starts_with (skipn (N.to_nat off) c) edns_prefix = false) ->
  (forall pos r, record_parse (h ++ c) pos (mlen (h ++ c)) = Ok r -> rr_type r <> 41) ->
  forall sec off,
  match old_parse h c sec (12 + off), mp_item c sec off with
  | Ok e, Ok (_, off') => e = 12 + off'
  | Err _, Err _ => True
  | _, _ => False
  end.
Proof. exact item_iff. Qed.
Print Assumptions C19_mp_item_iff.

(* C01's QuestionSection / RecordSection iteration (drain over q_next / r_next)
   and MessageParser's loop over a section of n announced items are complete
   together, yield the same number of items and end at the same offset *)
Theorem C19_question_section_agrees : forall h c, length h = 12%nat -> wf_bytes c ->
  (forall p, kclass (h ++ c) p = KNone) ->
  (forall off, starts_with (skipn (N.to_nat off) c) edns_prefix = false) ->
  (forall pos r, record_parse (h ++ c) pos (mlen (h ++ c)) = Ok r -> rr_type r <> 41) ->
  forall n off,
  let s := mkSect (12 + off) (N.of_nat n) None 0 in
  exists tr s' acc' off' ok,
    drain (q_next (h ++ c)) (sec_fuel s) s [] = Ok (tr, s') /\
    mp_section n c 0 off [] = Ok (acc', off', ok) /\
    (ok = true <-> has_err tr = false) /\
    (ok = true -> s_err s' = None /\ s_pos s' = 12 + off' /\ length tr = length acc').
Proof. exact question_section_agrees. Qed.
Print Assumptions C19_question_section_agrees.

Theorem C19_record_section_agrees : forall h c, length h = 12%nat -> wf_bytes c ->
  (forall p, kclass (h ++ c) p = KNone) ->
  (forall off, starts_with (skipn (N.to_nat off) c) edns_prefix = false) ->
  (forall pos r, record_parse (h ++ c) pos (mlen (h ++ c)) = Ok r -> rr_type r <> 41) ->
  forall sec n off, sec <> 0 ->
  let s := mkSect (12 + off) (N.of_nat n) None sec in
  exists tr s' acc' off' ok,
    drain (r_next (h ++ c)) (sec_fuel s) s [] = Ok (tr, s') /\
    mp_section n c sec off [] = Ok (acc', off', ok) /\
    (ok = true <-> has_err tr = false) /\
    (ok = true -> s_err s' = None /\ s_pos s' = 12 + off' /\ length tr = length acc').
Proof. exact record_section_agrees. Qed.
Print Assumptions C19_record_section_agrees.

(* ---- round 5 ---- *)
(* the uncompressed parser Name::split_bytes_by_ref (behind <&Name>::parse_bytes,
   NameBuf::parse_bytes, the names of SRV / DNAME ... RDATA) accepts every valid
   name - up to and including 255 octets - and returns exactly the octets behind it *)
Theorem C19_flat_split_complete : forall n rest, valid_abs n ->
  flat_split (wire_abs n ++ rest) = Ok (wire_abs n, rest).
Proof. exact flat_split_complete. Qed.
Print Assumptions C19_flat_split_complete.

(* ---- final round: the whole message ---- *)
(* MessageParser reads a message to completion (no error item, all four header
   counts satisfied) iff C01's model of the old codec does: the question section
   iterates clean, answer() and both next_section() - which re-walk a section
   with record_skip - reach the record sections, and each iterates clean.
   Premises: no pointer of a known class, no `0 0 41` item, no OPT record. *)
Theorem C19_whole_message_iff : forall h c, length h = 12%nat -> wf_bytes c ->
  (forall p, kclass (h ++ c) p = KNone) ->
  (forall off, starts_with (skipn (N.to_nat off) c) edns_prefix = false) ->
  (forall pos r, record_parse (h ++ c) pos (mlen (h ++ c)) = Ok r -> rr_type r <> 41) ->
  ((exists items off, mp_run (h ++ c) = Some (Ok (items, off, true))) <-> old_msg_ok (h ++ c)).
Proof. exact whole_message_iff. Qed.
Print Assumptions C19_whole_message_iff.

(* Record building of the new MessageBuilder (owner name, fixed octets, two
   RESERVED octets for the RDATA size, RDATA items, size written last): when the
   size field is reserved, every compressor entry together with the two octets
   behind it lies in front of it - the hypothesis of C19_patch_invariant, derived *)
Theorem C19_record_reserve_disjoint : forall (h : bytes), length h = 12%nat ->
  forall st c owner bs st1 fixed,
  Inv st c -> valid_abs owner -> fixed <> [] ->
  build_name st c (wire_abs owner) = Ok (bs, st1) ->
  Dis st1 (len (c ++ bs ++ fixed)) 2.
Proof. exact record_reserve_disjoint. Qed.
Print Assumptions C19_record_reserve_disjoint.

(* ... every later push keeps it so (a new entry starts at the end of the
   contents) and returns the same octets and the same state whatever the
   reserved octets hold *)
Theorem C19_record_patch_invisible : forall st A X Y B w bs st', length X = length Y ->
  Dis st (len A) (len X) ->
  build_name st (A ++ X ++ B) w = Ok (bs, st') ->
  build_name st (A ++ Y ++ B) w = Ok (bs, st') /\ Dis st' (len A) (len X).
Proof. exact record_patch_invisible. Qed.
Print Assumptions C19_record_patch_invisible.

(* ... hence the record with the size patched in is octet for octet the message
   built with the size octets in place from the start, its size field holds the
   RDATA length, and every name in it - owner and RDATA - reads back *)
Theorem C19_record_patched_sound : forall (h : bytes), length h = 12%nat ->
  forall st c owner fixed stale rd m,
  Inv st c -> wf_bytes c -> valid_abs owner -> wf_bytes fixed -> fixed <> [] -> length stale = 2%nat ->
  Forall item_ok rd ->
  build_record st c owner fixed stale rd = Ok m ->
  exists hi lo,
    build_items st c (IName owner :: IRaw fixed :: IRaw [hi; lo] :: rd) = Ok m /\
    (exists bs B, m = c ++ bs ++ fixed ++ [hi; lo] ++ B /\ hi * 256 + lo = len B /\ hi < 256 /\ lo < 256) /\
    wf_bytes m /\
    items_read_back h m (len c) (IName owner :: IRaw fixed :: IRaw [hi; lo] :: rd).
Proof. exact record_patched_sound. Qed.
Print Assumptions C19_record_patched_sound.

(* ---- round 5 widening: the uncompressed parser, both directions ---- *)
(* Name::split_bytes_by_ref never panics and never runs out of fuel *)
Theorem C19_flat_split_total : forall b, no_panic (flat_split b).
Proof. exact flat_split_total. Qed.
Print Assumptions C19_flat_split_total.

(* whatever it accepts is the wire form of a valid absolute name (labels of
   1..63 octets, at most 255 octets in all) followed by the octets it returns *)
Theorem C19_flat_split_sound : forall b w rest, wf_bytes b -> flat_split b = Ok (w, rest) ->
  exists n, valid_abs n /\ w = wire_abs n /\ b = wire_abs n ++ rest.
Proof. exact flat_split_sound. Qed.
Print Assumptions C19_flat_split_sound.

(* hence it accepts exactly the octet strings that start with a valid name ... *)
Theorem C19_flat_split_iff : forall b, wf_bytes b -> forall w rest,
  flat_split b = Ok (w, rest) <-> exists n, valid_abs n /\ w = wire_abs n /\ b = wire_abs n ++ rest.
Proof. exact flat_split_iff. Qed.
Print Assumptions C19_flat_split_iff.

(* ... and answers ParseError - no panic, no other error - to every other one *)
Theorem C19_flat_split_reject : forall b, wf_bytes b ->
  (~ exists n rest, valid_abs n /\ b = wire_abs n ++ rest) -> flat_split b = Err E_PARSE.
Proof. exact flat_split_reject. Qed.
Print Assumptions C19_flat_split_reject.

(* it consumes exactly the name: the split does not depend on what follows *)
Theorem C19_flat_split_suffix : forall b w rest more, wf_bytes b -> flat_split b = Ok (w, rest) ->
  flat_split (b ++ more) = Ok (w, rest ++ more).
Proof. exact flat_split_suffix. Qed.
Print Assumptions C19_flat_split_suffix.
