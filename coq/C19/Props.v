(* C19 -- property theorems only.  Proofs live in C19/Proofs*.v. *)
From Coq Require Import NArith List.
From DV Require Import Base.Outcome Base.Bytes Base.Names Base.PName C19.Gen C19.Model.
From DV Require Import C19.ProofsDec.
Import ListNotations.
Local Open Scope N_scope.

Theorem C19_agree_refuted_own_segment :
  exists c, exists n e, c19_old (hdr0 ++ c) 12 = Ok (n, e) /\ new_split c 0 = Err E_PARSE /\
    PtrIntoOwnSegment (hdr0 ++ c) 12.
Proof. exists [3;1;122;0;192;13]. eexists. eexists. exact agree_refuted_own_segment. Qed.
Print Assumptions C19_agree_refuted_own_segment.
