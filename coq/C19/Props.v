(* C19 -- property theorems only.  Proofs live in C19/Proofs*.v. *)
From Coq Require Import NArith List.
From DV Require Import Base.Outcome Base.Bytes Base.Names Base.PName C19.Gen C19.Model
  C19.ModelCmp C19.ProofsDec C19.ProofsOld C19.ProofsNew C19.ProofsAgree C19.ProofsCmp.
Import ListNotations.
Local Open Scope N_scope.

(* NameBuf::{split,parse}_message_bytes never panic and never loop, for every
   contents and every start offset *)
Theorem C19_new_split_total : forall c start, no_panic (new_split c start).
Proof. exact new_split_total. Qed.
Print Assumptions C19_new_split_total.

Theorem C19_new_parse_total : forall c start, no_panic (new_parse c start).
Proof. exact new_parse_total. Qed.
Print Assumptions C19_new_parse_total.

Theorem C19_new_parse_is_split : forall c start w,
  new_parse c start = Ok w <-> new_split c start = Ok (w, len c).
Proof. exact new_parse_is_split. Qed.
Print Assumptions C19_new_parse_is_split.

(* both readers decode exactly the paths of the message: same abstract meaning,
   they differ only in the pointer rule (R_old: target < pointer position;
   R_new: 12 <= target < start of the current segment) *)
Theorem C19_old_reader_is_path : forall m p n e,
  decode_name m p (mlen m) = Ok (n, e) <-> dpath R_old m p p 0 n e.
Proof. intros; split; [apply old_sound|apply old_complete]. Qed.
Print Assumptions C19_old_reader_is_path.

Theorem C19_new_reader_is_path : forall h c, length h = 12%nat -> wf_bytes c ->
  forall start,
  (forall w e, new_split c start = Ok (w, e) ->
     exists n, w = wire_abs n /\ dpath R_new (h ++ c) (12 + start) (12 + start) 0 n (12 + e)) /\
  (forall n e, dpath R_new (h ++ c) (12 + start) (12 + start) 0 n e ->
     new_split c start = Ok (wire_abs n, e - 12) /\ 12 <= e).
Proof. intros h c Hh Hwf start. split; [apply new_split_sound|apply new_split_complete]; assumption. Qed.
Print Assumptions C19_new_reader_is_path.

(* whatever the new reader accepts the old reader accepts, with the same
   labels and the same end position: no exception *)
Theorem C19_new_refines_old : forall h c, length h = 12%nat -> wf_bytes c ->
  forall start w e, new_split c start = Ok (w, e) ->
  exists n, decode_name (h ++ c) (12 + start) (mlen (h ++ c)) = Ok (n, 12 + e) /\ w = wire_abs n.
Proof. exact new_refines_old. Qed.
Print Assumptions C19_new_refines_old.

(* C19 for names, outside the two known classes: both accept or both reject,
   and when they accept they reconstruct the same labels and end position *)
Theorem C19_agree_outside_known : forall h c, length h = 12%nat -> wf_bytes c ->
  forall start,
  ~ PtrIntoOwnSegment (h ++ c) (12 + start) -> ~ PtrIntoHeader (h ++ c) (12 + start) ->
  is_ok (new_split c start) = is_ok (decode_name (h ++ c) (12 + start) (mlen (h ++ c))) /\
  (forall w e, new_split c start = Ok (w, e) ->
     exists n, decode_name (h ++ c) (12 + start) (mlen (h ++ c)) = Ok (n, 12 + e) /\ w = wire_abs n) /\
  (forall n e, decode_name (h ++ c) (12 + start) (mlen (h ++ c)) = Ok (n, e) ->
     12 <= e /\ new_split c start = Ok (wire_abs n, e - 12)).
Proof. exact agree_outside_known. Qed.
Print Assumptions C19_agree_outside_known.

(* ... and the full statement is false: known finding ptr_into_own_segment *)
Theorem C19_agree_refuted_own_segment :
  exists c n e, c19_old (hdr0 ++ c) 12 = Ok (n, e) /\ new_split c 0 = Err E_PARSE /\
    PtrIntoOwnSegment (hdr0 ++ c) 12.
Proof. exists [3;1;122;0;192;13]. eexists. eexists. exact agree_refuted_own_segment. Qed.
Print Assumptions C19_agree_refuted_own_segment.

(* finding ptr_into_header: the old reader follows pointers into the 12-octet header *)
Theorem C19_agree_refuted_header :
  exists c n e, c19_old (hdr0 ++ c) 12 = Ok (n, e) /\ new_split c 0 = Err E_PARSE /\
    PtrIntoHeader (hdr0 ++ c) 12.
Proof. exists [192;11]. eexists. eexists. exact agree_refuted_header. Qed.
Print Assumptions C19_agree_refuted_header.

(* ---- the new name compressor (model: C19/ModelCmp.v, T2 kind `bim`) ---- *)
(* "only ever emits pointers that resolve to the intended name" is false for the
   pinned code: three findings, each stated under the T1 flag that says the
   repair is absent (pending/C19-compressor-*.diff) *)
Theorem C19_new_compressor_sound_refuted : cmp_checks_attach = false ->
  exists names c w e, c19_build 0 names = Ok c /\ nth_error names 2 = Some n_x_a_b_c /\
    new_split c 9 = Ok (w, e) /\ w = n_x_a_c /\ w <> n_x_a_b_c.
Proof. exact compressor_sound_refuted. Qed.
Print Assumptions C19_new_compressor_sound_refuted.

Theorem C19_new_compressor_overflow_refuted : cn_range_check = false ->
  c19_build 16370 [[1;97;7;101;120;97;109;112;108;101;0]; [1;98;7;101;120;97;109;112;108;101;0]]
    = Panic PC_ADD_OVERFLOW.
Proof. exact compressor_overflow_refuted. Qed.
Print Assumptions C19_new_compressor_overflow_refuted.

Theorem C19_new_compressor_label_boundary_refuted : cmp_aligns_suffix = false ->
  c19_build 0 [[1;97;2;97;98;0]; [2;1;97;2;97;98;0]] = Panic PC_UNREACHABLE.
Proof. exact compressor_label_boundary_refuted. Qed.
Print Assumptions C19_new_compressor_label_boundary_refuted.

(* with the range check in place every offset handed out fits a 14-bit pointer
   (header included) and `addr + 0xC00C` cannot overflow, for all states,
   contents and names *)
Theorem C19_compress_name_pointer_range : range_fixed ->
  forall st c wire rest o st', compress_name st c wire = Ok (Some (rest, o), st') ->
    o + 12 < 16384 /\ o + 49164 <= 65535.
Proof. exact compress_name_pointer_range. Qed.
Print Assumptions C19_compress_name_pointer_range.
