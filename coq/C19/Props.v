(* C19 -- property theorems only.  Proofs live in C19/Proofs*.v. *)
From Coq Require Import NArith List.
From DV Require Import Base.Outcome Base.Bytes Base.Names Base.PName C19.Gen C19.Model.
