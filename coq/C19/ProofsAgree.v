(* C19 proofs, part 3: totality of the new reader, the known classes, and the
   agreement theorems between the two readers. *)
From Coq Require Import NArith List Bool Lia ZArith.
From Coq Require Import ZifyN ZifyBool ZifyNat.
From DV Require Import Base.Outcome Base.Bytes Base.Names Base.PName C19.Gen C19.Model
  C19.ProofsDec C19.ProofsOld C19.ProofsNew.
Import ListNotations.
Local Open Scope N_scope.
Ltac Zify.zify_post_hook ::= Z.div_mod_to_equations.

(* ================= totality ================= *)
Lemma seg_total fuel : forall bs buf, (length bs < fuel)%nat -> len buf < 255 ->
  match nb_segment fuel bs buf with
  | Ok (Some _, rest, buf') => len buf' < 255 /\ (length rest <= length bs)%nat
  | Ok (None, rest, _) => (length rest <= length bs)%nat
  | Err _ => True
  | _ => False
  end.
Proof.
  induction fuel as [|fuel IH]; intros bs buf Hf Hb; [lia|].
  destruct bs as [|b rest]; [exact I|]. rewrite nb_segment_cons.
  destruct (N.eqb_spec b 0).
  - unfold nb_append. change (len [0]) with 1. destruct (N.ltb_spec 255 (len buf + 1)); [lia|].
    cbn [bind length]. lia.
  - destruct (N.ltb_spec b 64).
    + destruct (N.ltb_spec (len (b :: rest)) (1 + b)) as [|Hs]; [exact I|].
      destruct (N.ltb_spec 255 (len buf)); [lia|].
      destruct (N.ltb_spec (255 - len buf) (2 + b)) as [|Hc]; [exact I|].
      unfold nb_append.
      assert (Hl : len (firstn (N.to_nat (1 + b)) (b :: rest)) = 1 + b).
      { unfold len in *. rewrite firstn_length. lia. }
      rewrite Hl. destruct (N.ltb_spec 255 (len buf + (1 + b))); [lia|]. cbn [bind].
      assert (Hsk : (length (skipn (N.to_nat (1 + b)) (b :: rest)) < length (b :: rest))%nat).
      { rewrite skipn_length. cbn [length]. lia. }
      specialize (IH (skipn (N.to_nat (1 + b)) (b :: rest)) (buf ++ firstn (N.to_nat (1 + b)) (b :: rest))).
      assert (Hb' : len (buf ++ firstn (N.to_nat (1 + b)) (b :: rest)) < 255).
      { unfold len in *. rewrite app_length. lia. }
      specialize (IH ltac:(lia) Hb').
      destruct (nb_segment fuel _ _) as [[[[pv|] r] bf]| | |]; auto; try lia.
    + destruct rest as [|lo rest']; [exact I|].
      destruct (N.leb_spec 192 b); [|exact I]. cbn [length]. split; [exact Hb|lia].
Qed.

Lemma follow_total c ffuel : forall ptr old_start buf,
  (N.to_nat old_start < ffuel)%nat -> len buf < 255 ->
  no_panic (nb_follow ffuel 12 true c (Some ptr) old_start buf).
Proof.
  induction ffuel as [|ffuel IH]; intros ptr old_start buf Hf Hb; [lia|].
  rewrite nb_follow_some.
  destruct (N.ltb_spec ptr 12); [exact I|]. unfold cmp_ge.
  destruct (N.leb_spec old_start (ptr - 12)); [exact I|].
  destruct (get_from c (ptr - 12)) as [bs|]; [|exact I].
  pose proof (seg_total (S (length bs)) bs buf ltac:(lia) Hb) as T.
  destruct (nb_segment (S (length bs)) bs buf) as [[[[pv|] r] bf]| | |]; cbn [bind]; try exact I; try contradiction.
  - apply IH; [lia|tauto].
  - destruct ffuel; exact I.
Qed.

Theorem new_split_total c start : no_panic (new_split c start).
Proof.
  unfold new_split. unfold get_from. destruct (N.ltb_spec (len c) start); [exact I|].
  set (bs := skipn (N.to_nat start) c).
  pose proof (seg_total (S (length bs)) bs [] ltac:(lia) ltac:(cbn; lia)) as T.
  assert (Hbs : (length bs <= length c)%nat) by (unfold bs; rewrite skipn_length; lia).
  destruct (nb_segment (S (length bs)) bs []) as [[[[pv|] r] bf]| | |]; cbn [bind]; try exact I; try contradiction.
  - destruct T as [T1 T2]. destruct (N.ltb_spec (len c) (len r)); [unfold len in *; lia|].
    change nb_split_hdr with 12. change nb_split_rule_ge with true.
    pose proof (follow_total c (follow_fuel start) pv start bf ltac:(unfold follow_fuel; lia) T1) as F.
    destruct (nb_follow (follow_fuel start) 12 true c (Some pv) start bf); cbn [bind]; auto.
  - destruct (N.ltb_spec (len c) (len r)); [unfold len in *; lia|]. cbn. exact I.
Qed.

Theorem new_parse_total c start : no_panic (new_parse c start).
Proof.
  unfold new_parse. unfold get_from. destruct (N.ltb_spec (len c) start); [exact I|].
  set (bs := skipn (N.to_nat start) c).
  pose proof (seg_total (S (length bs)) bs [] ltac:(lia) ltac:(cbn; lia)) as T.
  destruct (nb_segment (S (length bs)) bs []) as [[[[pv|] r] bf]| | |]; cbn [bind]; try exact I; try contradiction.
  - destruct r; [|exact I]. change nb_parse_hdr with 12. change nb_parse_rule_ge with true.
    apply follow_total; [unfold follow_fuel; lia|tauto].
  - destruct r; exact I.
Qed.

(* parse_message_bytes = split_message_bytes that must end at the end of the range *)
Theorem new_parse_is_split c start w :
  new_parse c start = Ok w <-> new_split c start = Ok (w, len c).
Proof.
  unfold new_parse, new_split. destruct (get_from c start) as [bs|] eqn:E; [|split; discriminate].
  assert (Hbs : (length bs <= length c)%nat).
  { unfold get_from in E. destruct (N.ltb_spec (len c) start); [discriminate|]. inversion E. rewrite skipn_length. lia. }
  pose proof (seg_total (S (length bs)) bs [] ltac:(lia) ltac:(cbn; lia)) as T.
  destruct (nb_segment (S (length bs)) bs []) as [[[ptr r] bf]| | |]; cbn [bind]; try (split; discriminate).
  assert (Hr : (length r <= length bs)%nat) by (destruct ptr; tauto).
  change nb_parse_hdr with nb_split_hdr. change nb_parse_rule_ge with nb_split_rule_ge.
  destruct (N.ltb_spec (len c) (len r)); [unfold len in *; lia|].
  destruct r as [|x r].
  - change (len []) with 0. replace (len c - 0) with (len c) by lia.
    destruct (nb_follow (follow_fuel start) nb_split_hdr nb_split_rule_ge c ptr start bf); cbn [bind];
      split; intros Q; inversion Q; reflexivity.
  - split; [discriminate|]. intros Q.
    destruct (nb_follow (follow_fuel start) nb_split_hdr nb_split_rule_ge c ptr start bf); cbn [bind] in Q; try discriminate.
    inversion Q. unfold len in *. cbn [length] in *. lia.
Qed.

(* ================= the known classes ================= *)
Section KNOWN.
Variable m : bytes.

Lemma k_hops_sound fuel : forall seg cur b c t,
  get m cur = Some b -> 192 <= b -> get m (cur + 1) = Some c ->
  hops fuel m (mlen m) (ptr_val b c) (cur + 2) = Ok t ->
  k_hops fuel m (mlen m) seg (ptr_val b c) (cur + 2) = KNone ->
  12 <= seg -> seg <= cur -> pchain R_new m seg cur t /\ 12 <= t.
Proof.
  induction fuel as [|fuel IH]; intros seg cur b c t G Hb G1 H K Hs Hsc; [discriminate|].
  cbn [hops] in H. cbn [k_hops] in K.
  destruct (N.leb_spec (cur + 2 - 2) (ptr_val b c)) as [H0|H0]; [discriminate|].
  unfold HDR in K. destruct (N.ltb_spec (ptr_val b c) 12) as [|H12]; [discriminate|].
  destruct (N.leb_spec seg (ptr_val b c)) as [|Hseg]; [discriminate|].
  destruct (N.ltb_spec (mlen m) (ptr_val b c)) as [H1|H1]; [discriminate|].
  destruct (label_type_parse m (ptr_val b c) (mlen m)) as [[[l|p2] a2]| | |] eqn:E; try discriminate.
  - inversion H; subst t. apply ltp_normal_inv in E as (G2 & Hl & _ & _).
    split; [|lia]. eapply pc_last; eauto. unfold R_new. lia.
  - apply ltp_comp_inv in E as (b2 & c2 & G2 & Hb2 & G3 & -> & -> & _).
    destruct (IH (ptr_val b c) (ptr_val b c) b2 c2 t G2 Hb2 G3 H K ltac:(lia) ltac:(lia)) as [PC Ht].
    split; [|exact Ht]. eapply pc_more; eauto. unfold R_new; lia.
Qed.

Lemma k_labels_sound fuel : forall cur nl start cf endp pn seg,
  nl < 255 -> 12 <= seg -> seg <= cur ->
  parse_labels fuel m (mlen m) cur nl start cf endp = Ok pn ->
  k_labels fuel m (mlen m) cur seg nl = KNone ->
  exists n e, dpath R_new m cur seg nl n e.
Proof.
  induction fuel as [|fuel IH]; intros cur nl start cf endp pn seg Hnl Hs Hsc H K; [discriminate|].
  cbn [parse_labels] in H. cbn [k_labels] in K.
  destruct (label_type_parse m cur (mlen m)) as [[[l|p] cur']| | |] eqn:E; try discriminate.
  - apply ltp_normal_inv in E as (G & Hl & -> & Hlt).
    destruct (N.eqb_spec l 0) as [->|Hl0].
    + exists [], (cur + 1). constructor; auto.
    + destruct (N.ltb_spec (mlen m - (cur + 1)) l) as [|Hsh]; [discriminate|].
      destruct (N.leb_spec 255 (nl + l + 1)) as [|Hc]; [discriminate|].
      destruct (IH (cur + 1 + l) (nl + l + 1) start cf endp pn seg ltac:(lia) Hs ltac:(lia) H K) as (n & e & D).
      exists (slice m (cur + 1) (cur + 1 + l) :: n), e. econstructor; eauto; lia.
  - apply ltp_comp_inv in E as (b & c & G & Hb & G1 & -> & -> & Hlt).
    destruct (hops (S (S (N.to_nat (ptr_val b c)))) m (mlen m) (ptr_val b c) (cur + 2)) as [t| | |] eqn:Eh;
      cbn [bind] in H; try discriminate.
    destruct (k_hops (S (S (N.to_nat (ptr_val b c)))) m (mlen m) seg (ptr_val b c) (cur + 2)) eqn:Ek; try discriminate.
    destruct (k_hops_sound _ _ _ _ _ _ G Hb G1 Eh Ek Hs Hsc) as [PC Ht].
    destruct (N.eqb_spec nl 0) as [Hz|Hz].
    + destruct (IH t nl _ _ _ pn t Hnl Ht (N.le_refl t) H K) as (n & e & D).
      exists n, (cur + 2). econstructor; eauto.
    + destruct (IH t nl _ _ _ pn t Hnl Ht (N.le_refl t) H K) as (n & e & D).
      exists n, (cur + 2). econstructor; eauto.
Qed.
End KNOWN.

(* ================= agreement ================= *)
Section AGREE.
Variables (h c : bytes).
Hypothesis Hh : length h = 12%nat.
Hypothesis Hwf : wf_bytes c.
Let m := h ++ c.

Lemma new_rule_implies_old : forall s cur x, s <= cur -> R_new s cur x -> x <= cur /\ R_old s cur x.
Proof. unfold R_new, R_old. intros. lia. Qed.

(* whatever the new reader accepts, the old reader accepts with the same
   labels and the same end position *)
Theorem new_refines_old start w e : new_split c start = Ok (w, e) ->
  exists n, decode_name m (12 + start) (mlen m) = Ok (n, 12 + e) /\ w = wire_abs n.
Proof.
  intros H. destruct (new_split_sound h c Hh Hwf _ _ _ H) as (n & Ew & D).
  exists n. split; [|exact Ew]. apply old_complete.
  eapply dpath_mono; [apply new_rule_implies_old|lia|exact D].
Qed.

(* outside the known classes the new reader accepts whatever the old one accepts *)
Lemma decode_ok_parse_ok p n e : decode_name m p (mlen m) = Ok (n, e) ->
  exists pn, parse_labels PARSE_FUEL m (mlen m) p 0 p false None = Ok pn.
Proof.
  unfold decode_name, parse_ref. generalize PARSE_FUEL. intros F H.
  destruct (parse_labels F m (mlen m) p 0 p false None) as [pn|x|x|];
    [eauto|cbn [bind] in H; discriminate..].
Qed.

Lemma known_none_path start pn :
  kclass m (12 + start) = KNone ->
  parse_labels PARSE_FUEL m (mlen m) (12 + start) 0 (12 + start) false None = Ok pn ->
  exists n e, dpath R_new m (12 + start) (12 + start) 0 n e.
Proof.
  unfold kclass. generalize PARSE_FUEL. intros F K P.
  exact (k_labels_sound m F (12 + start) 0 (12 + start) false None pn (12 + start) ltac:(lia) ltac:(lia) ltac:(lia) P K).
Qed.

Theorem old_refines_new_outside_known start n e :
  kclass m (12 + start) = KNone ->
  decode_name m (12 + start) (mlen m) = Ok (n, e) ->
  12 <= e /\ new_split c start = Ok (wire_abs n, e - 12).
Proof.
  intros K H.
  destruct (decode_ok_parse_ok _ _ _ H) as (pn & P).
  destruct (known_none_path _ _ K P) as (n' & e' & D).
  destruct (new_split_complete h c Hh Hwf _ _ _ D) as [S He'].
  destruct (new_refines_old _ _ _ S) as (n'' & H'' & Ew).
  assert (EE : Ok (n, e) = Ok (n'', 12 + (e' - 12))) by (rewrite <- H, <- H''; reflexivity).
  assert (En : n'' = n) by congruence. assert (Ee : 12 + (e' - 12) = e) by congruence. subst n''.
  split; [lia|]. rewrite <- Ew. replace (e - 12) with (e' - 12) by lia. exact S.
Qed.

Theorem agree_outside_known start :
  ~ PtrIntoOwnSegment m (12 + start) -> ~ PtrIntoHeader m (12 + start) ->
  is_ok (new_split c start) = is_ok (decode_name m (12 + start) (mlen m)) /\
  (forall w e, new_split c start = Ok (w, e) ->
     exists n, decode_name m (12 + start) (mlen m) = Ok (n, 12 + e) /\ w = wire_abs n) /\
  (forall n e, decode_name m (12 + start) (mlen m) = Ok (n, e) ->
     12 <= e /\ new_split c start = Ok (wire_abs n, e - 12)).
Proof.
  unfold PtrIntoOwnSegment, PtrIntoHeader. intros K1 K2.
  assert (K : kclass m (12 + start) = KNone) by (destruct (kclass m (12 + start)); congruence).
  assert (B : forall n e, decode_name m (12 + start) (mlen m) = Ok (n, e) ->
              12 <= e /\ new_split c start = Ok (wire_abs n, e - 12)).
  { intros n e. apply old_refines_new_outside_known. exact K. }
  split; [|split; [apply new_refines_old|exact B]].
  destruct (new_split c start) as [[w e]| | |] eqn:S.
  - destruct (new_refines_old _ _ _ S) as (n & H & _). fold m. rewrite H. reflexivity.
  - destruct (decode_name m (12 + start) (mlen m)) as [[n e2]| | |] eqn:H; try reflexivity.
    destruct (B _ _ eq_refl) as [_ S']. discriminate.
  - pose proof (new_split_total c start) as T. rewrite S in T. contradiction.
  - pose proof (new_split_total c start) as T. rewrite S in T. contradiction.
Qed.
End AGREE.

(* ================= witnesses and non-vacuity ================= *)
(* a compressed name both readers accept: contents  01 61 00 | 01 62 c0 0c *)
Example agree_example :
  let c := [1;97;0;1;98;192;12] in
  new_split c 3 = Ok ([1;98;1;97;0], 7) /\
  decode_name (hdr0 ++ c) 15 (mlen (hdr0 ++ c)) = Ok ([[98];[97]], 19) /\
  kclass (hdr0 ++ c) 15 = KNone /\ new_parse c 3 = Ok [1;98;1;97;0].
Proof. vm_compute. auto. Qed.

Example total_example : new_split [192;12] 0 = Err E_PARSE /\ new_split [64] 0 = Err E_PARSE /\
  new_split [1;97;0] 7 = Err E_PARSE /\ new_parse [0;0] 0 = Err E_PARSE.
Proof. vm_compute. auto. Qed.

Example path_example : dpath R_new (hdr0 ++ [1;97;0;1;98;192;12]) 15 15 0 [[98];[97]] 19.
Proof.
  change [[98];[97]] with (slice (hdr0 ++ [1;97;0;1;98;192;12]) (15 + 1) (15 + 1 + 1) :: [[97]]).
  eapply dp_label with (b := 1); [reflexivity|lia|lia|cbn; lia|lia|].
  change 19 with (17 + 2).
  eapply dp_ptr with (t := 12).
  - change 12 with (ptr_val 192 12). eapply pc_last with (b' := 1); try reflexivity; try lia.
    unfold R_new, ptr_val. cbn. lia.
  - change [[97]] with (slice (hdr0 ++ [1;97;0;1;98;192;12]) (12 + 1) (12 + 1 + 1) :: []).
    eapply dp_label with (b := 1); [reflexivity|lia|lia|cbn; lia|lia|].
    apply dp_root. reflexivity.
Qed.

(* the cap: 255 octets are accepted, 256 rejected, by both readers *)
Definition lbl63 : bytes := 63 :: repeat 120 63.
Example cap_example :
  let n255 := lbl63 ++ lbl63 ++ lbl63 ++ (61 :: repeat 120 61) ++ [0] in
  let n256 := lbl63 ++ lbl63 ++ lbl63 ++ (62 :: repeat 120 62) ++ [0] in
  len n255 = 255 /\ is_ok (new_split n255 0) = true /\ is_ok (decode_name (hdr0 ++ n255) 12 267) = true /\
  len n256 = 256 /\ is_ok (new_split n256 0) = false /\ is_ok (decode_name (hdr0 ++ n256) 12 268) = false.
Proof. vm_compute. repeat split; reflexivity. Qed.
