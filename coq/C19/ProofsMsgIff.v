(* C19 proofs, part 13: old -> new per item, and the section-level iff between
   MessageParser (mp_section) and C01's section iterators (drain over
   q_next / r_next), outside the known pointer classes and for records that are
   not OPT. *)
From Coq Require Import NArith List Bool Lia ZArith.
From Coq Require Import ZifyN ZifyBool ZifyNat.
From DV Require Import Base.Outcome Base.Bytes Base.Names Base.PName C19.Gen C19.Model C19.ModelEdns C19.ModelMsg
  C19.ProofsOld C19.ProofsNew C19.ProofsAgree C19.ProofsItems C19.ProofsMsg C01.Model C01.Model3.
Import ListNotations.
Local Open Scope N_scope.
Ltac Zify.zify_post_hook ::= Z.div_mod_to_equations.

(* ---- C01's drain over sec_next = "parse count items, stop at the first error" ---- *)
Section DRAIN.
Context {A : Type} (parse : N -> outcome A) (endof : A -> N).

Fixpoint iter_items (n : nat) (pos : N) : list A * N * bool :=
  match n with
  | O => ([], pos, true)
  | S n' => match parse pos with
            | Ok a => let '(l, p, ok) := iter_items n' (endof a) in (a :: l, p, ok)
            | _ => ([], pos, false)
            end
  end.

Hypothesis parse_total : forall p, no_panic (parse p).

Lemma has_err_app (l1 l2 : list (item A * sect)) : has_err (l1 ++ l2) = has_err l1 || has_err l2.
Proof. unfold has_err. apply existsb_app. Qed.

Lemma drain_count n : forall pos k fuel acc, (n + 2 <= fuel)%nat ->
  exists tr s', drain (sec_next parse endof) fuel (mkSect pos (N.of_nat n) None k) acc = Ok (rev acc ++ tr, s') /\
    let '(l, p, ok) := iter_items n pos in
    (ok = true -> s_err s' = None /\ s_pos s' = p /\ has_err tr = false /\ length tr = n) /\
    (ok = false -> has_err tr = true /\ s_err s' <> None).
Proof.
  induction n as [|n IH]; intros pos k fuel acc Hf.
  - destruct fuel as [|fuel]; [lia|]. cbn [drain]. unfold sec_next. cbn [s_err s_cnt]. cbn [N.of_nat N.ltb N.compare bind].
    exists [], (mkSect pos 0 None k). rewrite app_nil_r. split; [reflexivity|]. cbn. split; [auto|discriminate].
  - destruct fuel as [|fuel]; [lia|]. cbn [drain]. unfold sec_next at 1. cbn [s_err s_cnt s_pos s_kind].
    destruct (N.ltb_spec 0 (N.of_nat (S n))) as [_|]; [|lia]. cbn [iter_items].
    pose proof (parse_total pos) as T.
    destruct (parse pos) as [a|e| |] eqn:P; try contradiction.
    + cbn [bind]. replace (N.of_nat (S n) - 1) with (N.of_nat n) by lia.
      destruct (IH (endof a) k fuel ((IOk a, mkSect (endof a) (N.of_nat n) None k) :: acc) ltac:(lia)) as (tr & s' & D & HP).
      exists ((IOk a, mkSect (endof a) (N.of_nat n) None k) :: tr), s'. split.
      { rewrite D. cbn [rev]. rewrite <- app_assoc. reflexivity. }
      destruct (iter_items n (endof a)) as [[l p] ok]. destruct HP as [H1 H2]. split.
      * intros Q. destruct (H1 Q) as (E1 & E2 & E3 & E4). repeat split; auto. cbn [length]. lia.
      * intros Q. destruct (H2 Q) as (E1 & E2). split; [|exact E2].
        change ((IOk a, mkSect (endof a) (N.of_nat n) None k) :: tr) with ([(IOk a, mkSect (endof a) (N.of_nat n) None k)] ++ tr).
        rewrite has_err_app, E1. apply orb_true_r.
    + cbn [bind].
      (* the iterator holds the error; the next call yields None *)
      destruct fuel as [|fuel]; [lia|]. cbn [drain]. unfold sec_next at 1. cbn [s_err bind].
      exists [(IErr e, mkSect pos (N.of_nat (S n)) (Some e) k)], (mkSect pos (N.of_nat (S n)) (Some e) k).
      split; [cbn [rev]; reflexivity|]. split; [discriminate|]. intros _. split; [reflexivity|discriminate].
Qed.
End DRAIN.

From DV Require Import C01.Proofs2 C01.Proofs3.

Lemma sat_no_panic {A} (x : outcome A) P : sat x P -> no_panic x.
Proof. destruct x; cbn; auto. Qed.

Section SECTIONS.
Variables (h c : bytes).
Hypothesis Hh : length h = 12%nat.
Hypothesis Hwf : wf_bytes c.
Let m := h ++ c.

(* the premises of the old -> new direction *)
Hypothesis Hk : forall p, kclass m p = KNone.                               (* no pointer of a known class anywhere *)
Hypothesis Hno_edns : forall off, starts_with (skipn (N.to_nat off) c) edns_prefix = false.   (* no `0 0 41` *)
Hypothesis Hno_opt : forall pos r, record_parse m pos (mlen m) = Ok r -> rr_type r <> 41.

Lemma old_q_total p : no_panic (question_parse m p (mlen m)).
Proof. eapply sat_no_panic. apply question_parse_sat. lia. Qed.
Lemma old_r_total p : no_panic (record_parse m p (mlen m)).
Proof. eapply sat_no_panic. apply record_parse_sat. lia. Qed.

(* new item parser: never a panic *)
Lemma mp_item_total sec off : no_panic (mp_item c sec off).
Proof.
  assert (NU16 : forall e, e <= len c -> no_panic (nu16 c e)).
  { intros e He. unfold nu16, nfield. destruct (N.ltb_spec (len c) e); [lia|]. destruct (Nat.ltb _ _); exact I. }
  assert (NU32 : forall e, e <= len c -> no_panic (nu32 c e)).
  { intros e He. unfold nu32, nfield. destruct (N.ltb_spec (len c) e); [lia|]. destruct (Nat.ltb _ _); exact I. }
  assert (NUE : forall k e v e', nfield k c e = Ok (v, e') -> e' <= len c).
  { intros k e v e' H. unfold nfield in H. destruct (N.ltb_spec (len c) e); [discriminate H|].
    destruct (Nat.ltb_spec (length (firstn k (skipn (N.to_nat e) c))) k) as [|Q]; [discriminate H|]. inversion H; subst.
    rewrite firstn_length, skipn_length in Q. unfold len in *. lia. }
  assert (NE16 : forall e v e', nu16 c e = Ok (v, e') -> e' <= len c).
  { intros e v e' H. unfold nu16 in H. destruct (nfield 2 c e) as [[bs e1]| | |] eqn:F; cbn [bind] in H; try discriminate H. inversion H; subst. eapply NUE; eauto. }
  assert (NE32 : forall e v e', nu32 c e = Ok (v, e') -> e' <= len c).
  { intros e v e' H. unfold nu32 in H. destruct (nfield 4 c e) as [[bs e1]| | |] eqn:F; cbn [bind] in H; try discriminate H. inversion H; subst. eapply NUE; eauto. }
  unfold mp_item. destruct (sec =? 0).
  - unfold new_question. pose proof (new_split_total c off) as T.
    destruct (new_split c off) as [[w e]| | |] eqn:S; try contradiction; cbn [bind fst snd]; try exact I.
    pose proof (NU16 e (new_split_end h c Hh Hwf _ _ _ S)) as T1.
    destruct (nu16 c e) as [[t1 e1]| | |] eqn:U1; try contradiction; cbn [bind fst snd]; try exact I.
    pose proof (NU16 e1 (NE16 _ _ _ U1)) as T2.
    destruct (nu16 c e1) as [[t2 e2]| | |]; try contradiction; cbn [bind fst snd]; exact I.
  - rewrite Hno_edns. rewrite andb_false_r.
    unfold new_record. pose proof (new_split_total c off) as T.
    destruct (new_split c off) as [[w e]| | |] eqn:S; try contradiction; cbn [bind fst snd]; try exact I.
    pose proof (NU16 e (new_split_end h c Hh Hwf _ _ _ S)) as T1.
    destruct (nu16 c e) as [[t1 e1]| | |] eqn:U1; try contradiction; cbn [bind fst snd]; try exact I.
    pose proof (NU16 e1 (NE16 _ _ _ U1)) as T2.
    destruct (nu16 c e1) as [[t2 e2]| | |] eqn:U2; try contradiction; cbn [bind fst snd]; try exact I.
    pose proof (NU32 e2 (NE16 _ _ _ U2)) as T3.
    destruct (nu32 c e2) as [[t3 e3]| | |] eqn:U3; try contradiction; cbn [bind fst snd]; try exact I.
    pose proof (NU16 e3 (NE32 _ _ _ U3)) as T4.
    destruct (nu16 c e3) as [[t4 e4]| | |] eqn:U4; try contradiction; cbn [bind fst snd]; try exact I.
    destruct (len c <? e4 + t4); [exact I|]. destruct (65535 <? t4); [exact I|]. cbn [bind].
    destruct ((t1 =? 41) && _); exact I.
Qed.

(* old -> new, per item *)
Lemma mp_item_old_to_new_q off q : question_parse m (12 + off) (mlen m) = Ok q ->
  exists it, mp_item c 0 off = Ok (it, q_end q - 12) /\ 12 <= q_end q.
Proof.
  intros H. destruct (question_old_to_new h c Hh Hwf off q (Hk _) H) as (n & _ & He & Q).
  unfold mp_item. cbn [N.eqb]. rewrite Q. cbn [bind]. eexists. split; [reflexivity|]. clear - He. lia.
Qed.

Lemma mp_item_old_to_new_r sec off r : sec <> 0 -> record_parse m (12 + off) (mlen m) = Ok r ->
  exists it, mp_item c sec off = Ok (it, rr_end r - 12) /\ 12 <= rr_end r.
Proof.
  intros Hs H. destruct (record_old_to_new h c Hh Hwf off r (Hk _) H) as (n & _ & He & Q).
  pose proof (record_extent_within m (12 + off) (mlen m) r (N.le_refl _) H) as (E1 & E2 & E3).
  unfold mp_item. destruct (N.eqb_spec sec 0); [contradiction|]. rewrite Hno_edns, andb_false_r.
  rewrite Q. cbn [bind]. destruct (N.eqb_spec (rr_type r) 41) as [E|E]; [exfalso; eapply Hno_opt; eauto|].
  cbn [andb]. eexists. split; [reflexivity|]. clear - E1 He. lia.
Qed.

(* one section: MessageParser's loop against C01's iteration of the old item parser *)
Definition old_parse (sec : N) (p : N) : outcome N :=
  if sec =? 0 then (do q <- question_parse m p (mlen m); Ok (q_end q))
  else (do r <- record_parse m p (mlen m); Ok (rr_end r)).

Lemma item_iff sec off :
  match old_parse sec (12 + off), mp_item c sec off with
  | Ok e, Ok (_, off') => e = 12 + off'
  | Err _, Err _ => True
  | _, _ => False
  end.
Proof.
  unfold old_parse. pose proof (mp_item_total sec off) as TN.
  destruct (N.eqb_spec sec 0) as [->|Hs].
  - pose proof (old_q_total (12 + off)) as TO.
    destruct (question_parse m (12 + off) (mlen m)) as [q| | |] eqn:Q; try contradiction; cbn [bind].
    + destruct (mp_item_old_to_new_q _ _ Q) as (it & E & He). rewrite E. clear - He. lia.
    + destruct (mp_item c 0 off) as [[it off']| | |] eqn:E; try contradiction; [|exact I].
      pose proof (mp_item_new_to_old h c Hh Hwf _ _ _ _ E) as O. unfold mp_item in E. cbn [N.eqb] in E.
      destruct (new_question c off) as [[[[w ty] cl] e0]| | |]; cbn [bind] in E; try discriminate E. inversion E; subst.
      cbn [old_reads] in O. destruct O as (q & n & Q' & _). fold m in Q'. rewrite Q in Q'. discriminate Q'.
  - pose proof (old_r_total (12 + off)) as TO.
    destruct (record_parse m (12 + off) (mlen m)) as [r| | |] eqn:R; try contradiction; cbn [bind].
    + destruct (mp_item_old_to_new_r sec _ _ Hs R) as (it & E & He). rewrite E. clear - He. lia.
    + destruct (mp_item c sec off) as [[it off']| | |] eqn:E; try contradiction; [|exact I].
      pose proof (mp_item_new_to_old h c Hh Hwf _ _ _ _ E) as O. unfold mp_item in E.
      destruct (N.eqb_spec sec 0); [contradiction|]. rewrite Hno_edns, andb_false_r in E.
      destruct (new_record c off) as [[[[[[w ty] cl] ttl] d] e0]| | |]; cbn [bind] in E; try discriminate E.
      destruct ((ty =? 41) && _); [discriminate E|]. inversion E; subst.
      cbn [old_reads] in O. destruct O as (r0 & n0 & R' & _). fold m in R'. rewrite R in R'. discriminate R'.
Qed.

(* MessageParser reads a section of n announced items completely iff the old
   iteration does, with the same number of items and the same end *)
Theorem section_iff n : forall sec off acc,
  exists acc' off' ok, mp_section n c sec off acc = Ok (acc', off', ok) /\
    let '(l, p, ok_old) := iter_items (old_parse sec) (fun e => e) n (12 + off) in
    ok = ok_old /\ length acc' = (length acc + length l)%nat /\ (ok = true -> p = 12 + off').
Proof.
  induction n as [|n IH]; intros sec off acc; cbn [mp_section iter_items].
  - exists acc, off, true. split; [reflexivity|]. cbn. repeat split; lia.
  - pose proof (item_iff sec off) as I1.
    destruct (old_parse sec (12 + off)) as [e| | |]; destruct (mp_item c sec off) as [[it off1]| | |]; try contradiction.
    + subst e. destruct (IH sec off1 (it :: acc)) as (acc' & off' & ok & E & HP). exists acc', off', ok. split; [exact E|].
      destruct (iter_items (old_parse sec) (fun e => e) n (12 + off1)) as [[l p] ok_old]. destruct HP as (A & B & C).
      cbn [length] in *. repeat split; auto; lia.
    + exists acc, off, false. split; [reflexivity|]. cbn. repeat split; try lia; try discriminate.
Qed.
End SECTIONS.

(* ---- the same against C01's iterators themselves ---- *)
Lemma iter_items_ends {A} (parse : N -> outcome A) (endof : A -> N) (parse2 : N -> outcome N) :
  (forall p, parse2 p = (do a <- parse p; Ok (endof a))) ->
  forall n pos, let '(l, p, ok) := iter_items parse endof n pos in
                let '(l2, p2, ok2) := iter_items parse2 (fun e => e) n pos in
                length l = length l2 /\ p = p2 /\ ok = ok2.
Proof.
  intros H n. induction n as [|n IH]; intros pos; cbn [iter_items]; [auto|].
  rewrite H. destruct (parse pos) as [a| | |]; cbn [bind]; auto.
  specialize (IH (endof a)).
  destruct (iter_items parse endof n (endof a)) as [[l p] ok].
  destruct (iter_items parse2 (fun e => e) n (endof a)) as [[l2 p2] ok2].
  destruct IH as (A1 & A2 & A3). cbn [length]. auto.
Qed.

Lemma iter_items_len {A} (parse : N -> outcome A) (endof : A -> N) n : forall pos,
  let '(l, p, ok) := iter_items parse endof n pos in ok = true -> length l = n.
Proof.
  induction n as [|n IH]; intros pos; cbn [iter_items]; [auto|].
  destruct (parse pos) as [a| | |]; try discriminate.
  specialize (IH (endof a)). destruct (iter_items parse endof n (endof a)) as [[l p] ok].
  intros Q. cbn [length]. rewrite (IH Q). reflexivity.
Qed.

Section C01LINK.
Variables (h c : bytes).
Hypothesis Hh : length h = 12%nat.
Hypothesis Hwf : wf_bytes c.
Let m := h ++ c.
Hypothesis Hk : forall p, kclass m p = KNone.
Hypothesis Hno_edns : forall off, starts_with (skipn (N.to_nat off) c) edns_prefix = false.
Hypothesis Hno_opt : forall pos r, record_parse m pos (mlen m) = Ok r -> rr_type r <> 41.

(* C01's QuestionSection iteration over n announced questions at offset off, and
   MessageParser's: complete together, same number of items, same end *)
Theorem question_section_agrees n off :
  let s := mkSect (12 + off) (N.of_nat n) None 0 in
  exists tr s' acc' off' ok,
    drain (q_next m) (sec_fuel s) s [] = Ok (tr, s') /\
    mp_section n c 0 off [] = Ok (acc', off', ok) /\
    (ok = true <-> has_err tr = false) /\
    (ok = true -> s_err s' = None /\ s_pos s' = 12 + off' /\ length tr = length acc').
Proof.
  cbv zeta.
  destruct (drain_count (fun pos => question_parse m pos (mlen m)) q_end ltac:(intros p0; eapply old_q_total; eassumption) n (12 + off) 0 (sec_fuel (mkSect (12 + off) (N.of_nat n) None 0)) [])
    as (tr & s' & D & HP).
  { unfold sec_fuel. cbn [s_cnt]. lia. }
  destruct (section_iff h c Hh Hwf Hk Hno_edns Hno_opt n 0 off []) as (acc' & off' & ok & E & HS).
  pose proof (iter_items_ends (fun pos => question_parse m pos (mlen m)) q_end (old_parse h c 0) ltac:(intros; reflexivity) n (12 + off)) as HI.
  destruct (iter_items (fun pos => question_parse m pos (mlen m)) q_end n (12 + off)) as [[l p] okq] eqn:Eq1.
  destruct (iter_items (old_parse h c 0) (fun e => e) n (12 + off)) as [[l2 p2] ok2].
  pose proof (iter_items_len (fun pos => question_parse m pos (mlen m)) q_end n (12 + off)) as HL. rewrite Eq1 in HL.
  destruct HI as (L1 & L2 & L3). destruct HS as (S1 & S2 & S3). destruct HP as (P1 & P2).
  exists tr, s', acc', off', ok. split; [exact D|]. split; [exact E|]. subst.
  destruct ok2.
  - destruct (P1 eq_refl) as (A1 & A2 & A3 & A4). split; [tauto|]. intros _.
    split; [exact A1|]. split; [rewrite A2; apply S3; reflexivity|].
    cbn [length] in S2. rewrite (HL eq_refl) in L1. lia.
  - destruct (P2 eq_refl) as (A1 & A2). split; [split; intros Q; [discriminate Q|congruence]|]. intros Q; discriminate Q.
Qed.

(* ... and C01's RecordSection iteration (answer, authority, additional) *)
Theorem record_section_agrees sec n off : sec <> 0 ->
  let s := mkSect (12 + off) (N.of_nat n) None sec in
  exists tr s' acc' off' ok,
    drain (r_next m) (sec_fuel s) s [] = Ok (tr, s') /\
    mp_section n c sec off [] = Ok (acc', off', ok) /\
    (ok = true <-> has_err tr = false) /\
    (ok = true -> s_err s' = None /\ s_pos s' = 12 + off' /\ length tr = length acc').
Proof.
  intros Hs. cbv zeta.
  destruct (drain_count (fun pos => record_parse m pos (mlen m)) rr_end ltac:(intros p0; eapply old_r_total; eassumption) n (12 + off) sec (sec_fuel (mkSect (12 + off) (N.of_nat n) None sec)) [])
    as (tr & s' & D & HP).
  { unfold sec_fuel. cbn [s_cnt]. lia. }
  destruct (section_iff h c Hh Hwf Hk Hno_edns Hno_opt n sec off []) as (acc' & off' & ok & E & HS).
  assert (Hold : forall p, old_parse h c sec p = (do a <- record_parse m p (mlen m); Ok (rr_end a))).
  { intros p. unfold old_parse. destruct (N.eqb_spec sec 0); [contradiction|reflexivity]. }
  pose proof (iter_items_ends (fun pos => record_parse m pos (mlen m)) rr_end (old_parse h c sec) Hold n (12 + off)) as HI.
  destruct (iter_items (fun pos => record_parse m pos (mlen m)) rr_end n (12 + off)) as [[l p] okq] eqn:Eq1.
  destruct (iter_items (old_parse h c sec) (fun e => e) n (12 + off)) as [[l2 p2] ok2].
  pose proof (iter_items_len (fun pos => record_parse m pos (mlen m)) rr_end n (12 + off)) as HL. rewrite Eq1 in HL.
  destruct HI as (L1 & L2 & L3). destruct HS as (S1 & S2 & S3). destruct HP as (P1 & P2).
  exists tr, s', acc', off', ok. split; [exact D|]. split; [exact E|]. subst.
  destruct ok2.
  - destruct (P1 eq_refl) as (A1 & A2 & A3 & A4). split; [tauto|]. intros _.
    split; [exact A1|]. split; [rewrite A2; apply S3; reflexivity|].
    cbn [length] in S2. rewrite (HL eq_refl) in L1. lia.
  - destruct (P2 eq_refl) as (A1 & A2). split; [split; intros Q; [discriminate Q|congruence]|]. intros Q; discriminate Q.
Qed.
End C01LINK.
