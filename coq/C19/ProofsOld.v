(* C19 proofs, part 1: decoding paths and the OLD reader (Base/PName.v).
   [dpath R m cur seg nl n e]: starting at offset cur (inside the segment that
   starts at seg, with nl octets of name already collected) the labels n can
   be read off the message m, following compression pointers admitted by the
   rule R seg (position of pointer) target; e is the offset just behind the
   first terminator (root label or pointer).  The old reader is sound and
   complete for dpath R_old. *)
From Coq Require Import NArith List Bool Lia ZArith.
From Coq Require Import ZifyN ZifyBool ZifyNat.
From DV Require Import Base.Outcome Base.Bytes Base.Names Base.PName C19.Gen C19.Model.
Import ListNotations.
Local Open Scope N_scope.
Ltac Zify.zify_post_hook ::= Z.div_mod_to_equations.

Definition ptr_val (b c : N) : N := c + 256 * (b mod 64).
Definition R_old (seg cur t : N) : Prop := t < cur.
Definition R_new (seg cur t : N) : Prop := 12 <= t /\ t < seg.

Inductive pchain (R : N -> N -> N -> Prop) (m : bytes) : N -> N -> N -> Prop :=
| pc_last seg cur b c b' :
    get m cur = Some b -> 192 <= b -> get m (cur + 1) = Some c ->
    R seg cur (ptr_val b c) -> get m (ptr_val b c) = Some b' -> b' <= 63 ->
    pchain R m seg cur (ptr_val b c)
| pc_more seg cur b c t' :
    get m cur = Some b -> 192 <= b -> get m (cur + 1) = Some c ->
    R seg cur (ptr_val b c) -> pchain R m (ptr_val b c) (ptr_val b c) t' ->
    pchain R m seg cur t'.

Inductive dpath (R : N -> N -> N -> Prop) (m : bytes) : N -> N -> N -> name -> N -> Prop :=
| dp_root cur seg nl : get m cur = Some 0 -> dpath R m cur seg nl [] (cur + 1)
| dp_label cur seg nl b rest e :
    get m cur = Some b -> 1 <= b -> b <= 63 -> cur + 1 + b <= mlen m -> nl + b + 1 < 255 ->
    dpath R m (cur + 1 + b) seg (nl + b + 1) rest e ->
    dpath R m cur seg nl (slice m (cur + 1) (cur + 1 + b) :: rest) e
| dp_ptr cur seg nl t rest e' :
    pchain R m seg cur t -> dpath R m t t nl rest e' -> dpath R m cur seg nl rest (cur + 2).

(* ---- list / get basics ---- *)
Lemma get_lt m i b : get m i = Some b -> i < mlen m.
Proof.
  unfold get, mlen. intros H.
  assert (Hn : (N.to_nat i < length m)%nat) by (apply nth_error_Some; congruence). lia.
Qed.

Lemma slice_length m a b : b <= mlen m -> a <= b -> length (slice m a b) = N.to_nat (b - a).
Proof.
  unfold slice, mlen. intros Hb Ha. rewrite firstn_length, skipn_length. lia.
Qed.

(* ---- label_type_parse, both directions (lim = mlen m) ---- *)
Lemma ltp_normal_inv m pos lim l p' :
  label_type_parse m pos lim = Ok (LNormal l, p') ->
  get m pos = Some l /\ l <= 63 /\ p' = pos + 1 /\ pos < lim.
Proof.
  unfold label_type_parse. destruct (N.leb_spec lim pos) as [H|H]; [discriminate|].
  destruct (get m pos) as [b|]; [|discriminate].
  destruct (N.leb_spec b 63) as [H1|H1].
  - intros E; inversion E; subst. auto.
  - destruct (N.leb_spec 192 b); [|discriminate].
    destruct (N.leb_spec lim (pos + 1)); [discriminate|].
    destruct (get m (pos + 1)); discriminate.
Qed.

Lemma ltp_comp_inv m pos lim p p' :
  label_type_parse m pos lim = Ok (LCompressed p, p') ->
  exists b c, get m pos = Some b /\ 192 <= b /\ get m (pos + 1) = Some c /\
              p = ptr_val b c /\ p' = pos + 2 /\ pos + 1 < lim.
Proof.
  unfold label_type_parse. destruct (N.leb_spec lim pos) as [H|H]; [discriminate|].
  destruct (get m pos) as [b|]; [|discriminate].
  destruct (N.leb_spec b 63) as [H1|H1]; [discriminate|].
  destruct (N.leb_spec 192 b) as [H2|H2]; [|discriminate].
  destruct (N.leb_spec lim (pos + 1)) as [H3|H3]; [discriminate|].
  destruct (get m (pos + 1)) as [c|] eqn:Ec; [|discriminate].
  intros E; inversion E; subst. exists b, c. unfold ptr_val. repeat split; auto.
Qed.

Lemma ltp_normal m pos b :
  get m pos = Some b -> b <= 63 -> label_type_parse m pos (mlen m) = Ok (LNormal b, pos + 1).
Proof.
  intros G Hb. unfold label_type_parse. pose proof (get_lt _ _ _ G).
  destruct (N.leb_spec (mlen m) pos); [lia|]. rewrite G.
  destruct (N.leb_spec b 63); [reflexivity|lia].
Qed.

Lemma ltp_comp m pos b c :
  get m pos = Some b -> 192 <= b -> get m (pos + 1) = Some c ->
  label_type_parse m pos (mlen m) = Ok (LCompressed (ptr_val b c), pos + 2).
Proof.
  intros G Hb G1. unfold label_type_parse. pose proof (get_lt _ _ _ G). pose proof (get_lt _ _ _ G1).
  destruct (N.leb_spec (mlen m) pos); [lia|]. rewrite G.
  destruct (N.leb_spec b 63); [lia|]. destruct (N.leb_spec 192 b); [|lia].
  destruct (N.leb_spec (mlen m) (pos + 1)); [lia|]. rewrite G1. reflexivity.
Qed.

(* ---- pchain basics ---- *)
Lemma pchain_first R m seg cur t : pchain R m seg cur t ->
  exists b c, get m cur = Some b /\ 192 <= b /\ get m (cur + 1) = Some c /\ R seg cur (ptr_val b c).
Proof. intros H; inversion H; subst; eauto 8. Qed.

Lemma pchain_end R m seg cur t : pchain R m seg cur t -> exists b', get m t = Some b' /\ b' <= 63.
Proof. induction 1; eauto. Qed.

Lemma pchain_mono (R R' : N -> N -> N -> Prop) m seg cur t :
  (forall s c x, s <= c -> R s c x -> x <= c /\ R' s c x) -> seg <= cur ->
  pchain R m seg cur t -> pchain R' m seg cur t.
Proof.
  intros HR Hs H. revert Hs. induction H; intros Hs.
  - destruct (HR _ _ _ Hs H2). eapply pc_last; eauto.
  - destruct (HR _ _ _ Hs H2). eapply pc_more; eauto. apply IHpchain. lia.
Qed.

Lemma dpath_mono (R R' : N -> N -> N -> Prop) m cur seg nl n e :
  (forall s c x, s <= c -> R s c x -> x <= c /\ R' s c x) -> seg <= cur ->
  dpath R m cur seg nl n e -> dpath R' m cur seg nl n e.
Proof.
  intros HR Hs H. revert Hs. induction H; intros Hs.
  - constructor; auto.
  - econstructor; eauto. apply IHdpath. lia.
  - econstructor; [eapply pchain_mono; eauto|]. apply IHdpath. lia.
Qed.

(* R_old ignores the segment *)
Lemma pchain_old_seg m seg seg' cur t : pchain R_old m seg cur t -> pchain R_old m seg' cur t.
Proof. intros H. revert seg'. induction H; intros; [eapply pc_last|eapply pc_more]; eauto. Qed.

Lemma dpath_old_seg m cur seg seg' nl n e : dpath R_old m cur seg nl n e -> dpath R_old m cur seg' nl n e.
Proof.
  intros H. revert seg'. induction H; intros.
  - constructor; auto.
  - econstructor; eauto.
  - econstructor; eauto using pchain_old_seg.
Qed.

Lemma dpath_len R m cur seg nl n e : dpath R m cur seg nl n e -> nl < 255 ->
  nl + N.of_nat (wire_len n) < 255 /\ (2 * length n <= wire_len n)%nat.
Proof.
  induction 1; intros Hn.
  - simpl. lia.
  - destruct (IHdpath ltac:(lia)) as [A B]. cbn [wire_len length].
    rewrite slice_length by lia. lia.
  - auto.
Qed.

(* ================= OLD reader: soundness ================= *)
Lemma hops_sound m fuel : forall seg cur b c t,
  get m cur = Some b -> 192 <= b -> get m (cur + 1) = Some c ->
  hops fuel m (mlen m) (ptr_val b c) (cur + 2) = Ok t -> pchain R_old m seg cur t.
Proof.
  induction fuel as [|fuel IH]; intros seg cur b c t G Hb G1 H; [discriminate|].
  cbn [hops] in H.
  destruct (N.leb_spec (cur + 2 - 2) (ptr_val b c)) as [H0|H0]; [discriminate|].
  destruct (N.ltb_spec (mlen m) (ptr_val b c)) as [H1|H1]; [discriminate|].
  destruct (label_type_parse m (ptr_val b c) (mlen m)) as [[[l|p2] a2]| | |] eqn:E; try discriminate.
  - inversion H; subst t. apply ltp_normal_inv in E as (G2 & Hl & _ & _).
    eapply pc_last; eauto. unfold R_old. lia.
  - apply ltp_comp_inv in E as (b2 & c2 & G2 & Hb2 & G3 & -> & -> & _).
    eapply pc_more; eauto. unfold R_old; lia.
Qed.

Definition endsel (endp : option N) (e : N) : N := match endp with None => e | Some x => x end.

Lemma parse_labels_sound m fuel : forall cur nl start cf endp pn seg,
  nl < 255 -> (nl = 0 -> start = cur) ->
  parse_labels fuel m (mlen m) cur nl start cf endp = Ok pn ->
  exists n e, dpath R_old m cur seg nl n e /\
    pn_len pn = nl + N.of_nat (wire_len n) + 1 /\ pn_end pn = endsel endp e /\
    (nl <> 0 -> pn_pos pn = start) /\
    (nl = 0 -> exists e', dpath R_old m (pn_pos pn) (pn_pos pn) 0 n e').
Proof.
  induction fuel as [|fuel IH]; intros cur nl start cf endp pn seg Hnl Hst H; [discriminate|].
  cbn [parse_labels] in H.
  destruct (label_type_parse m cur (mlen m)) as [[[l|p] cur']| | |] eqn:E; try discriminate.
  - apply ltp_normal_inv in E as (G & Hl & -> & Hlt).
    destruct (N.eqb_spec l 0) as [->|Hl0].
    + inversion H; subst pn. cbn [pn_len pn_end pn_pos]. exists [], (cur + 1).
      split; [constructor; auto|]. split; [cbn; lia|]. split; [destruct endp; reflexivity|].
      split; [reflexivity|].
      intros Hz. rewrite (Hst Hz). exists (cur + 1). constructor; auto.
    + destruct (N.ltb_spec (mlen m - (cur + 1)) l) as [Hs|Hs]; [discriminate|].
      destruct (N.leb_spec 255 (nl + l + 1)) as [Hc|Hc]; [discriminate|].
      apply IH with (seg := seg) in H; [|lia|lia].
      destruct H as (n & e & D & Hlen & Hend & Hpos & _).
      assert (Hsl : length (slice m (cur + 1) (cur + 1 + l)) = N.to_nat l).
      { rewrite slice_length by lia. f_equal. lia. }
      exists (slice m (cur + 1) (cur + 1 + l) :: n), e.
      assert (DD : forall s, dpath R_old m cur s nl (slice m (cur + 1) (cur + 1 + l) :: n) e).
      { intros s. econstructor; eauto; try lia. eapply dpath_old_seg; eauto. }
      repeat split; auto.
      * cbn [wire_len]. rewrite Hsl. lia.
      * intros _. rewrite Hpos by lia. reflexivity.
      * intros Hz. rewrite Hpos by lia. rewrite (Hst Hz). subst nl. eauto.
  - apply ltp_comp_inv in E as (b & c & G & Hb & G1 & -> & -> & Hlt).
    destruct (hops (S (S (N.to_nat (ptr_val b c)))) m (mlen m) (ptr_val b c) (cur + 2)) as [t| | |] eqn:Eh;
      cbn [bind] in H; try discriminate.
    pose proof (hops_sound _ _ seg _ _ _ _ G Hb G1 Eh) as PC.
    destruct (N.eqb_spec nl 0) as [Hz|Hz].
    + apply IH with (seg := t) in H; auto.
      destruct H as (n & e & D & Hlen & Hend & _ & Hpos).
      exists n, (cur + 2). repeat split; auto.
      * econstructor; eauto.
      * rewrite Hend. destruct endp; reflexivity.
      * intros; contradiction.
    + apply IH with (seg := t) in H; auto; [|intros; contradiction].
      destruct H as (n & e & D & Hlen & Hend & Hpos & _).
      exists n, (cur + 2). repeat split; auto.
      * econstructor; eauto.
      * rewrite Hend. destruct endp; reflexivity.
      * intros; contradiction.
Qed.

(* ================= OLD reader: completeness ================= *)
Lemma hops_complete m seg cur t : pchain R_old m seg cur t ->
  exists b c, get m cur = Some b /\ 192 <= b /\ get m (cur + 1) = Some c /\ ptr_val b c < cur /\
    forall fuel, (N.to_nat (ptr_val b c) < fuel)%nat ->
      hops fuel m (mlen m) (ptr_val b c) (cur + 2) = Ok t.
Proof.
  induction 1 as [seg cur b c b' G Hb G1 HR G2 Hb'|seg cur b c t' G Hb G1 HR PC IH].
  - exists b, c. unfold R_old in HR. repeat split; auto. intros fuel Hf.
    destruct fuel as [|fuel]; [lia|]. cbn [hops].
    pose proof (get_lt _ _ _ G).
    destruct (N.leb_spec (cur + 2 - 2) (ptr_val b c)); [lia|].
    destruct (N.ltb_spec (mlen m) (ptr_val b c)); [lia|].
    rewrite (ltp_normal _ _ _ G2 Hb'). reflexivity.
  - destruct IH as (b2 & c2 & G2 & Hb2 & G3 & Hlt & IH).
    exists b, c. unfold R_old in HR. repeat split; auto. intros fuel Hf.
    destruct fuel as [|fuel]; [lia|]. cbn [hops].
    pose proof (get_lt _ _ _ G).
    destruct (N.leb_spec (cur + 2 - 2) (ptr_val b c)); [lia|].
    destruct (N.ltb_spec (mlen m) (ptr_val b c)); [lia|].
    rewrite (ltp_comp _ _ _ _ G2 Hb2 G3). apply IH. lia.
Qed.

Definition normal_at (m : bytes) (cur : N) : nat :=
  match get m cur with Some b => if b <=? 63 then 1%nat else 0%nat | None => 0%nat end.

Lemma parse_labels_complete m cur seg nl n e : dpath R_old m cur seg nl n e -> nl < 255 ->
  forall fuel start cf endp, (2 * length n + 2 <= fuel + normal_at m cur)%nat ->
    (nl = 0 -> start = cur) ->
    exists pn, parse_labels fuel m (mlen m) cur nl start cf endp = Ok pn /\
      pn_len pn = nl + N.of_nat (wire_len n) + 1 /\ pn_end pn = endsel endp e /\
      (nl <> 0 -> pn_pos pn = start) /\
      (nl = 0 -> exists e', dpath R_old m (pn_pos pn) (pn_pos pn) 0 n e').
Proof.
  induction 1 as [cur seg nl G|cur seg nl b rest e G Hb1 Hb2 Hlen Hcap D IH|cur seg nl t rest e' PC D IH];
    intros Hnl fuel start cf endp Hf Hst.
  - unfold normal_at in Hf. rewrite G in Hf. cbn in Hf.
    destruct fuel as [|fuel]; [lia|]. cbn [parse_labels].
    rewrite (ltp_normal _ _ _ G ltac:(lia)). cbn.
    eexists. split; [reflexivity|]. cbn [pn_len pn_end pn_pos].
    split; [lia|]. split; [destruct endp; reflexivity|]. split; [reflexivity|].
    intros Hz. rewrite (Hst Hz). exists (cur + 1). constructor; auto.
  - unfold normal_at in Hf. rewrite G in Hf. destruct (N.leb_spec b 63); [|lia].
    destruct fuel as [|fuel]; [lia|]. cbn [parse_labels].
    rewrite (ltp_normal _ _ _ G Hb2).
    destruct (N.eqb_spec b 0); [lia|].
    destruct (N.ltb_spec (mlen m - (cur + 1)) b); [lia|].
    destruct (N.leb_spec 255 (nl + b + 1)); [lia|].
    assert (Hsl : length (slice m (cur + 1) (cur + 1 + b)) = N.to_nat b).
    { rewrite slice_length by lia. f_equal. lia. }
    destruct (IH ltac:(lia) fuel start cf endp) as (pn & P & Hl & He & Hp & _).
    { cbn [length] in Hf. lia. }
    { lia. }
    exists pn. split; [exact P|]. split; [cbn [wire_len]; rewrite Hsl; lia|].
    split; [exact He|]. split; [intros _; apply Hp; lia|].
    intros Hz. rewrite Hp by lia. rewrite (Hst Hz). exists e. subst nl.
    eapply dp_label; [exact G|lia|lia|lia|lia|eapply dpath_old_seg; exact D].
  - destruct (hops_complete _ _ _ _ PC) as (b & c & G & Hb & G1 & Hlt & HH).
    destruct (pchain_end _ _ _ _ _ PC) as (b' & G' & Hb').
    unfold normal_at in Hf. rewrite G in Hf. destruct (N.leb_spec b 63); [lia|].
    destruct fuel as [|fuel]; [lia|]. cbn [parse_labels].
    rewrite (ltp_comp _ _ _ _ G Hb G1).
    rewrite (HH (S (S (N.to_nat (ptr_val b c)))) ltac:(lia)). cbn [bind].
    assert (Hf' : (2 * length rest + 2 <= fuel + normal_at m t)%nat).
    { unfold normal_at. rewrite G'. destruct (N.leb_spec b' 63); lia. }
    destruct (N.eqb_spec nl 0) as [Hz|Hz].
    + destruct (IH Hnl fuel t false (match endp with None => Some (cur + 2) | Some e0 => Some e0 end) Hf' ltac:(auto))
        as (pn & P & Hl & He & _ & Hp).
      exists pn. split; [exact P|]. split; [exact Hl|].
      split; [rewrite He; destruct endp; reflexivity|]. split; [intros; contradiction|]. auto.
    + destruct (IH Hnl fuel start true (match endp with None => Some (cur + 2) | Some e0 => Some e0 end) Hf' ltac:(intros; contradiction))
        as (pn & P & Hl & He & Hp & _).
      exists pn. split; [exact P|]. split; [exact Hl|].
      split; [rewrite He; destruct endp; reflexivity|]. split; [auto|]. intros; contradiction.
Qed.

(* ParsedNameIter: the unchecked re-walk yields the labels of the path *)
Lemma get_label_chain m seg cur t : pchain R_old m seg cur t ->
  forall f f2, (N.to_nat cur < f)%nat -> (0 < f2)%nat -> get_label f m cur = get_label f2 m t.
Proof.
  induction 1 as [seg cur b c b' G Hb G1 HR G2 Hb'|seg cur b c t' G Hb G1 HR PC IH]; intros f f2 Hf Hf2;
    unfold R_old in HR.
  - destruct f as [|f]; [lia|]. cbn [get_label]. rewrite G.
    destruct (N.leb_spec b 63); [lia|]. destruct (N.leb_spec 192 b); [|lia]. rewrite G1.
    fold (ptr_val b c).
    destruct f as [|f]; [lia|]. destruct f2 as [|f2]; [lia|].
    cbn [get_label]. rewrite G2. destruct (N.leb_spec b' 63); [reflexivity|lia].
  - destruct f as [|f]; [lia|]. cbn [get_label]. rewrite G.
    destruct (N.leb_spec b 63); [lia|]. destruct (N.leb_spec 192 b); [|lia]. rewrite G1.
    fold (ptr_val b c). apply IH; lia.
Qed.

Lemma get_label_normal m cur b f : get m cur = Some b -> b <= 63 -> cur + 1 + b <= mlen m ->
  get_label (S f) m cur = Ok (slice m (cur + 1) (cur + 1 + b), cur + 1 + b).
Proof.
  intros G Hb Hl. cbn [get_label]. rewrite G. destruct (N.leb_spec b 63); [|lia].
  cbv zeta. destruct (N.ltb_spec (mlen m) (cur + 1 + b)); [lia|]. reflexivity.
Qed.

Lemma iter_labels_complete m cur seg nl n e : dpath R_old m cur seg nl n e ->
  forall fuel acc, (length n < fuel)%nat ->
    iter_labels fuel m cur (N.of_nat (wire_len n) + 1) acc = Ok (rev acc ++ n, true).
Proof.
  induction 1 as [cur seg nl G|cur seg nl b rest e G Hb1 Hb2 Hlen Hcap D IH|cur seg nl t rest e' PC D IH];
    intros fuel acc Hf.
  - destruct fuel as [|fuel]; [lia|]. cbn [iter_labels wire_len].
    pose proof (get_lt _ _ _ G).
    rewrite (get_label_normal _ _ 0 _ G) by lia. cbn [bind].
    replace (slice m (cur + 1) (cur + 1 + 0)) with (@nil N)
      by (unfold slice; replace (cur + 1 + 0 - (cur + 1)) with 0 by lia; reflexivity).
    cbn. rewrite app_nil_r. reflexivity.
  - destruct fuel as [|fuel]; [cbn in Hf; lia|]. cbn [iter_labels].
    assert (Hsl : length (slice m (cur + 1) (cur + 1 + b)) = N.to_nat b).
    { rewrite slice_length by lia. f_equal. lia. }
    cbn [wire_len]. rewrite Hsl.
    destruct (N.eqb_spec (N.of_nat (S (N.to_nat b) + wire_len rest) + 1) 0); [lia|].
    rewrite (get_label_normal _ _ b _ G) by lia. cbn [bind]. rewrite Hsl.
    destruct (N.ltb_spec (N.of_nat (S (N.to_nat b) + wire_len rest) + 1) (N.of_nat (N.to_nat b) + 1)); [lia|].
    destruct (Nat.eqb_spec (N.to_nat b) 0); [lia|].
    replace (N.of_nat (S (N.to_nat b) + wire_len rest) + 1 - (N.of_nat (N.to_nat b) + 1))
      with (N.of_nat (wire_len rest) + 1) by lia.
    rewrite IH by (cbn in Hf; lia). cbn [rev]. rewrite <- app_assoc. reflexivity.
  - destruct fuel as [|fuel]; [lia|].
    pose proof (IH (S fuel) acc Hf) as IH'. cbn [iter_labels] in IH' |- *.
    destruct (N.eqb_spec (N.of_nat (wire_len rest) + 1) 0); [lia|].
    destruct (pchain_first _ _ _ _ _ PC) as (b & c & G & _).
    pose proof (get_lt _ _ _ G).
    rewrite (get_label_chain _ _ _ _ PC (S (length m)) (S (length m))) by (unfold mlen in *; lia).
    exact IH'.
Qed.

Lemma parse_fuel_ge : (256 <= PARSE_FUEL)%nat.
Proof. unfold PARSE_FUEL. lia. Qed.

Theorem old_complete m p n e : dpath R_old m p p 0 n e -> decode_name m p (mlen m) = Ok (n, e).
Proof.
  intros D. destruct (dpath_len _ _ _ _ _ _ _ D ltac:(lia)) as [L1 L2].
  unfold decode_name, parse_ref, pname_labels.
  generalize parse_fuel_ge. generalize PARSE_FUEL. intros F HF.
  destruct (parse_labels_complete _ _ _ _ _ _ D ltac:(lia) F p false None) as (pn & P & Hl & He & _ & Hp).
  { lia. } { auto. }
  rewrite P. cbn [bind]. destruct (Hp eq_refl) as (e' & D').
  rewrite Hl. replace (0 + N.of_nat (wire_len n) + 1) with (N.of_nat (wire_len n) + 1) by lia.
  rewrite (iter_labels_complete _ _ _ _ _ _ D') by lia. cbn [bind fst]. rewrite He. reflexivity.
Qed.

Theorem old_sound m p n e : decode_name m p (mlen m) = Ok (n, e) -> dpath R_old m p p 0 n e.
Proof.
  unfold decode_name, parse_ref, pname_labels.
  generalize parse_fuel_ge. generalize PARSE_FUEL. intros F HF H.
  destruct (parse_labels F m (mlen m) p 0 p false None) as [pn| | |] eqn:P; try discriminate.
  cbn [bind] in H.
  destruct (parse_labels_sound m F p 0 p false None pn p ltac:(lia) ltac:(auto) P) as (n' & e' & D & Hl & He & _ & Hp).
  destruct (Hp eq_refl) as (e'' & D').
  destruct (dpath_len _ _ _ _ _ _ _ D ltac:(lia)) as [L1 L2].
  rewrite Hl in H.
  replace (0 + N.of_nat (wire_len n') + 1) with (N.of_nat (wire_len n') + 1) in H by lia.
  rewrite (iter_labels_complete _ _ _ _ _ _ D') in H by lia. cbn [bind fst] in H.
  inversion H; subst. rewrite He. exact D.
Qed.
