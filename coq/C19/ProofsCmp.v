(* C19 proofs, part 4: the new name compressor.  Witnesses for the defects of
   the pinned code (each conditional on the T1 flag that says the repair is
   absent, so that the file still builds once a repair has landed), and the
   pointer-range theorem of the repaired loop. *)
From Coq Require Import NArith List Bool Lia ZArith.
From Coq Require Import ZifyN ZifyBool ZifyNat.
From DV Require Import Base.Outcome Base.Bytes C19.Gen C19.Model C19.ModelCmp.
Import ListNotations.
Local Open Scope N_scope.
Ltac Zify.zify_post_hook ::= Z.div_mod_to_equations.

(* names in wire form *)
Definition n_b_c : bytes := [1;98;1;99;0].
Definition n_a_c : bytes := [1;97;1;99;0].
Definition n_x_a_b_c : bytes := [1;120;1;97;1;98;1;99;0].

(* regression vectors of the three repaired defects (fix: commits 78b30ee,
   4f7eebf, 0ad71c9 in /repo): the inputs that used to give a wrong pointer, a
   u16 overflow and unreachable!() now build messages that read back *)
Example compressor_regressions :
  (exists c, c19_build 0 [n_b_c; n_a_c; n_x_a_b_c] = Ok c /\ new_split c 9 = Ok (n_x_a_b_c, len c)) /\
  (exists c, c19_build 16370 [[1;97;7;101;120;97;109;112;108;101;0]; [1;98;7;101;120;97;109;112;108;101;0]] = Ok c /\
             new_split c 16381 = Ok ([1;98;7;101;120;97;109;112;108;101;0], len c)) /\
  (exists c, c19_build 0 [[1;97;2;97;98;0]; [2;1;97;2;97;98;0]] = Ok c /\
             new_split c 6 = Ok ([2;1;97;2;97;98;0], len c)).
Proof.
  split; [|split]; eexists; (split; [vm_compute; reflexivity|vm_compute; reflexivity]).
Qed.

(* regression vector of the repaired defect new_compressor_unused_slot_debug_assert
   (unused slots carry hash 0 and parent 0, both also a possible label hash and a
   possible parent index): a.com, then 1rr.com - `com` hits slot 0, the rest `1rr`
   hashes to 0 and is looked up under parent 0; the unused slots are now skipped *)
Example compressor_unused_slot_regression :
  exists c, c19_build 0 [[1;97;3;99;111;109;0]; [3;49;114;114;3;99;111;109;0]] = Ok c /\
            new_split c 7 = Ok ([3;49;114;114;3;99;111;109;0], len c).
Proof. eexists. split; vm_compute; reflexivity. Qed.

(* the hash (SEED1, SEED2, M, >> 48 from T1): the label `1rr` hashes to 0; the
   harness confirms this on the real code through the unused-slot case *)
Example hash_zero_label : hash_label [3;49;114;114] = 0 /\ hash_label [3;99;111;109] <> 0.
Proof. vm_compute. split; [reflexivity|discriminate]. Qed.

(* non-vacuity of the model: the crate's own test vectors (compressor.rs tests) *)
Example compressor_examples :
  let ex_org := [7;101;120;97;109;112;108;101;3;111;114;103;0] in
  let ex_com := [7;101;120;97;109;112;108;101;3;99;111;109;0] in
  let un_org := [7;117;110;101;113;117;97;108;3;111;114;103;0] in
  let un_ORG := [7;117;110;101;113;117;97;108;3;79;82;71;0] in
  c19_build 0 [ex_org; ex_com] = Ok (ex_org ++ ex_com) /\
  c19_build 0 [ex_org; un_org] = Ok (ex_org ++ [7;117;110;101;113;117;97;108;192;20]) /\
  c19_build 0 [ex_org; un_ORG] = Ok (ex_org ++ [7;117;110;101;113;117;97;108;192;20]).
Proof. vm_compute. repeat split; reflexivity. Qed.

(* ---- with the range check in place, every offset handed out fits a pointer ---- *)
Definition range_fixed : Prop :=
  cn_range_check = true /\ cn_range_ge = true /\ cn_range_add = 12 /\ cn_range_bound = 16384.

Lemma compress_loop_range (Hfix : range_fixed) fuel : forall st c name parent poff hash st' name' parent' poff' hash',
  (forall o, poff = Some o -> o + 12 < 16384) ->
  compress_loop fuel st c name parent poff hash = Ok (st', name', parent', poff', hash') ->
  forall o, poff' = Some o -> o + 12 < 16384.
Proof.
  destruct Hfix as (F1 & F2 & F3 & F4).
  induction fuel as [|fuel IH]; intros st c name parent poff hash st' name' parent' poff' hash' Hp H; [discriminate H|].
  cbn [compress_loop] in H. destruct name as [|x name].
  - inversion H; subst. exact Hp.
  - destruct (lookup_from 32 0 st c (x :: name) parent poff hash) as [|i rest h pos|s].
    + inversion H; subst. exact Hp.
    + rewrite F1, F2, F3, F4 in H. unfold cmp_ge in H. cbn [andb] in H.
      destruct (N.leb_spec 16384 (pos + 12)) as [Hr|Hr].
      * inversion H; subst. exact Hp.
      * eapply IH; [|exact H]. intros o Ho. inversion Ho; subst. exact Hr.
    + discriminate H.
Qed.

Local Opaque compress_loop lookup_from last_label hash_label.

(* with the range check of pending/C19-compressor-pointer-range.diff in place,
   every offset compress_name hands out fits a 14-bit pointer together with the
   12-octet header, and `addr + 0xC00C` cannot overflow *)
Theorem compress_name_pointer_range (Hfix : range_fixed) st c wire rest o st' :
  compress_name st c wire = Ok (Some (rest, o), st') -> o + 12 < 16384 /\ o + 49164 <= 65535.
Proof.
  unfold compress_name. intros H.
  destruct (firstn (length wire - 1) wire) as [|x name]; [discriminate H|].
  destruct (last_label (x :: name)) as [lab|e|s|]; cbn [bind] in H; try discriminate H.
  destruct (compress_loop (S (length (x :: name))) st c (x :: name) cn_no_parent None (hash_label lab))
    as [[[[[st1 name'] parent] poff] hash]|e|s|] eqn:Ec; cbn [bind] in H; try discriminate H.
  assert (R : forall o0, poff = Some o0 -> o0 + 12 < 16384).
  { eapply compress_loop_range; [exact Hfix| |exact Ec]. intros o0 Q. discriminate Q. }
  destruct poff as [o0|]; [|discriminate H].
  assert (o0 = o) by (inversion H; reflexivity). subst o0.
  specialize (R o eq_refl). lia.
Qed.
