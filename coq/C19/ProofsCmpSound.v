(* C19 proofs, part 5: soundness of the (repaired) new name compressor.
   (A) what a lookup hit means, for ANY compressor state: the name splits on a
       label boundary into rest ++ S and the octets the returned offset points at
       equal S up to u8::to_ascii_lowercase (length octets included);
   (B) octets that equal a label sequence up to to_ascii_lowercase decode to the
       same labels up to case (a length octet < 64 only equals itself);
   (C) end to end for a fresh compressor and two names (single entry, no
       eviction): both names read back, by the new and the old reader. *)
From Coq Require Import NArith List Bool Lia ZArith.
From Coq Require Import ZifyN ZifyBool ZifyNat.
From DV Require Import Base.Outcome Base.Bytes Base.Names Base.PName C19.Gen C19.Model C19.ModelCmp
  C19.ProofsOld C19.ProofsNew C19.ProofsAgree.
Import ListNotations.
Local Open Scope N_scope.
Ltac Zify.zify_post_hook ::= Z.div_mod_to_equations.

Definition lastn (k : nat) (l : bytes) : bytes := skipn (length l - k) l.

Lemma lastn_length k l : (k <= length l)%nat -> length (lastn k l) = k.
Proof. intros H. unfold lastn. rewrite skipn_length. lia. Qed.

Lemma lastn_app k a b : k = length b -> lastn k (a ++ b) = b.
Proof.
  intros ->. unfold lastn. rewrite app_length.
  replace (length a + length b - length b)%nat with (length a) by lia.
  rewrite skipn_app, skipn_all, Nat.sub_diag. reflexivity.
Qed.

Lemma lowers_rev l : lowers (rev l) = rev (lowers l).
Proof. unfold lowers. apply map_rev. Qed.

Lemma lowers_skipn k l : lowers (skipn k l) = skipn k (lowers l).
Proof. unfold lowers. symmetry. apply skipn_map. Qed.

Lemma lowers_firstn k l : lowers (firstn k l) = firstn k (lowers l).
Proof. unfold lowers. symmetry. apply firstn_map. Qed.

Lemma lastn_lastn j k l : (j <= k)%nat -> (k <= length l)%nat -> lastn j (lastn k l) = lastn j l.
Proof.
  intros H1 H2. unfold lastn. rewrite skipn_length, skipn_skipn'. f_equal. lia.
Qed.

(* agreement on the last k octets implies agreement on the last j <= k *)
Lemma ci_suffix_shrink a b j k : (j <= k)%nat -> (k <= length a)%nat -> (k <= length b)%nat ->
  lowers (lastn k a) = lowers (lastn k b) -> lowers (lastn j a) = lowers (lastn j b).
Proof.
  intros Hj Ha Hb H.
  rewrite <- (lastn_lastn j k a), <- (lastn_lastn j k b) by lia.
  unfold lastn at 1 3. rewrite !lowers_skipn, !lastn_length by lia. rewrite H. reflexivity.
Qed.

(* ---- mismatch_pos ---- *)
Lemma mismatch_some x : forall y k r, mismatch_pos x y k = Some r ->
  exists j, r = k + N.of_nat j /\ (j < length x)%nat /\ (j < length y)%nat /\
            lowers (firstn j x) = lowers (firstn j y).
Proof.
  induction x as [|a x IH]; intros [|b y] k r H; cbn [mismatch_pos] in H; try discriminate.
  destruct (N.eqb_spec (lower a) (lower b)) as [E|E].
  - apply IH in H as (j & -> & H1 & H2 & H3). exists (S j). cbn [length firstn lowers map].
    split; [lia|]. split; [lia|]. split; [lia|]. unfold lowers in H3. rewrite E, H3. reflexivity.
  - inversion H; subst r. exists 0%nat. cbn. split; [lia|]. split; [lia|]. split; [lia|reflexivity].
Qed.

Lemma mismatch_none x : forall y k, mismatch_pos x y k = None ->
  lowers (firstn (min (length x) (length y)) x) = lowers (firstn (min (length x) (length y)) y).
Proof.
  induction x as [|a x IH]; intros [|b y] k H; cbn [mismatch_pos] in H; try reflexivity.
  destruct (N.eqb_spec (lower a) (lower b)) as [E|E]; [|discriminate].
  apply IH in H. cbn [length Nat.min firstn lowers map]. unfold lowers in H. rewrite E, H. reflexivity.
Qed.

Lemma firstn_rev_lastn j l : firstn j (rev l) = rev (lastn j l).
Proof. unfold lastn. apply firstn_rev. Qed.

Lemma rev_eq_inv {A} (a b : list A) : rev a = rev b -> a = b.
Proof. intros H. rewrite <- (rev_involutive a), <- (rev_involutive b), H. reflexivity. Qed.

Lemma mismatch_some_suffix name entry r : mismatch_pos (rev name) (rev entry) 0 = Some r ->
  exists j, r = N.of_nat j /\ (j < length name)%nat /\ (j < length entry)%nat /\
            lowers (lastn j name) = lowers (lastn j entry).
Proof.
  intros H. apply mismatch_some in H as (j & -> & H1 & H2 & H3). rewrite !rev_length in *.
  exists j. split; [lia|]. split; [lia|]. split; [lia|].
  rewrite !firstn_rev_lastn, !lowers_rev in H3. apply rev_eq_inv. exact H3.
Qed.

Lemma mismatch_none_suffix name entry : mismatch_pos (rev name) (rev entry) 0 = None ->
  let k := min (length name) (length entry) in lowers (lastn k name) = lowers (lastn k entry).
Proof.
  intros H. apply mismatch_none in H. rewrite !rev_length in H.
  rewrite !firstn_rev_lastn, !lowers_rev in H. apply rev_eq_inv. exact H.
Qed.

(* ---- labels ---- *)
Lemma wire_rel_cons l ls : wire_rel (l :: ls) = wire_label l ++ wire_rel ls.
Proof. reflexivity. Qed.

Lemma next_label_wire l ls : next_label (wire_rel (l :: ls)) = Some (wire_label l, wire_rel ls).
Proof.
  rewrite wire_rel_cons. unfold wire_label at 1. cbn [app next_label].
  replace (N.to_nat (1 + N.of_nat (length l))) with (length (wire_label l)) by (unfold wire_label; cbn [length]; lia).
  change (N.of_nat (length l) :: l ++ wire_rel ls) with (wire_label l ++ wire_rel ls).
  destruct (Nat.ltb_spec (length (wire_label l ++ wire_rel ls)) (length (wire_label l))) as [H|H].
  - rewrite app_length in H. lia.
  - rewrite firstn_app, firstn_all, Nat.sub_diag, skipn_app, skipn_all, Nat.sub_diag.
    cbn [firstn skipn app]. rewrite app_nil_r. reflexivity.
Qed.

Lemma walk_to_wire fuel : forall prev ls sl, (length ls < fuel)%nat ->
  exists prev' pre ls', walk_to fuel prev (wire_rel ls) sl = Ok (prev', wire_rel ls') /\
    ls = pre ++ ls' /\ len (wire_rel ls') <= sl.
Proof.
  induction fuel as [|fuel IH]; intros prev ls sl Hf; [lia|]. cbn [walk_to].
  destruct (N.ltb_spec sl (len (wire_rel ls))) as [H|H].
  - destruct ls as [|l ls]; [cbn in H; lia|]. rewrite next_label_wire.
    destruct (IH (wire_label l) ls sl ltac:(cbn in Hf; lia)) as (p' & pre & ls' & W & E & L).
    exists p', (l :: pre), ls'. split; [exact W|]. split; [rewrite E; reflexivity|exact L].
  - exists prev, [], ls. auto.
Qed.

(* ---- one slot of the lookup, with the T1 flags of the repaired code ---- *)
Definition aligned_body (name : bytes) (next : lk) (i : nat) (pos ln sl : N) : lk :=
  match next_label name with
  | None => LkPanic PC_UNCHECKED
  | Some (first, rem) =>
      match walk_to (S (length name)) first rem sl with
      | Ok (prev, rem') =>
          if len rem' =? 0 then next
          else LkHit (N.of_nat i) (firstn (length name - length rem') name) (hash_label prev) (pos + ln - len rem')
      | Panic s => LkPanic s
      | _ => LkPanic PC_UNCHECKED
      end
  end.

Definition slot_body (name entry : bytes) (next : lk) (i : nat) (pos ln : N) : lk :=
  match mismatch_pos (rev name) (rev entry) 0 with
  | Some sl => aligned_body name next i pos ln sl
  | None => if len entry <? len name then aligned_body name next i pos ln (len entry)
            else LkHit (N.of_nat i) [] 0 (pos + ln - len name)
  end.

Definition attach_ok (c : bytes) (pos ln : N) (poff : option N) : bool :=
  match poff with
  | None => true
  | Some o => let v := (o + cmp_attach_add) mod 65536 in
              match slice_opt c (pos + ln) 2 with
              | Some [hi; lo] => (hi =? v / 256) && (lo =? v mod 256)
              | _ => false
              end
  end.

Lemma lookup_step k i st c name parent poff hash :
  lookup_from (S k) i st c name parent poff hash =
    let next := lookup_from k (S i) st c name parent poff hash in
    if negb (nth i (cs_hash st) 0 =? hash) || negb (nth i (cs_par st) 0 =? parent) then next else
    if nth i (cs_len st) 0 =? 0 then (if cmp_skips_unused then next else LkPanic PC_ASSERT_LEN) else
    match slice_opt c (nth i (cs_pos st) 0) (nth i (cs_len st) 0) with
    | None => LkPanic PC_CONTENTS
    | Some entry =>
        if negb (attach_ok c (nth i (cs_pos st) 0) (nth i (cs_len st) 0) poff) then next
        else slot_body name entry next i (nth i (cs_pos st) 0) (nth i (cs_len st) 0)
    end.
Proof. reflexivity. Qed.

(* what a hit means *)
Definition hit_ok (st : cstate) (c : bytes) (n : name) (parent : N) (i : N) (rest : bytes) (p : N) : Prop :=
  exists n_pre n_suf entry,
    n = n_pre ++ n_suf /\ n_suf <> [] /\ rest = wire_rel n_pre /\
    nth (N.to_nat i) (cs_par st) 0 = parent /\
    slice_opt c (nth (N.to_nat i) (cs_pos st) 0) (nth (N.to_nat i) (cs_len st) 0) = Some entry /\
    len entry = nth (N.to_nat i) (cs_len st) 0 /\
    (length (wire_rel n_suf) <= length entry)%nat /\
    p = nth (N.to_nat i) (cs_pos st) 0 + len entry - len (wire_rel n_suf) /\
    lowers (lastn (length (wire_rel n_suf)) entry) = lowers (wire_rel n_suf).

Lemma aligned_sound st c n parent next i pos ln entry sl j i' rest h p :
  n <> [] -> sl = N.of_nat j -> (j <= length (wire_rel n))%nat -> (j <= length entry)%nat ->
  lowers (lastn j (wire_rel n)) = lowers (lastn j entry) ->
  aligned_body (wire_rel n) next i pos ln sl = LkHit i' rest h p ->
  nth i (cs_par st) 0 = parent -> nth i (cs_pos st) 0 = pos -> nth i (cs_len st) 0 = ln ->
  slice_opt c pos ln = Some entry -> len entry = ln ->
  next = LkHit i' rest h p \/ (i' = N.of_nat i /\ hit_ok st c n parent (N.of_nat i) rest p).
Proof.
  intros Hn Hsl Hj1 Hj2 Hci H Hpar Hpos Hln Hs He.
  destruct n as [|l0 n0]; [contradiction|]. unfold aligned_body in H. rewrite next_label_wire in H.
  destruct (walk_to_wire (S (length (wire_rel (l0 :: n0)))) (wire_label l0) n0 sl) as (prev & pre & ls' & W & E & L).
  { rewrite wire_rel_length. cbn [wire_len]. clear. induction n0; cbn; lia. }
  rewrite W in H. destruct (N.eqb_spec (len (wire_rel ls')) 0) as [Z|Z]; [left; exact H|]. right.
  split; [congruence|].
  assert (Hsplit : wire_rel (l0 :: n0) = wire_rel (l0 :: pre) ++ wire_rel ls').
  { rewrite E. change (l0 :: pre ++ ls') with ((l0 :: pre) ++ ls'). apply wire_rel_app. }
  assert (Hrest : firstn (length (wire_rel (l0 :: n0)) - length (wire_rel ls')) (wire_rel (l0 :: n0)) = wire_rel (l0 :: pre)).
  { rewrite Hsplit. rewrite app_length.
    replace (length (wire_rel (l0 :: pre)) + length (wire_rel ls') - length (wire_rel ls'))%nat
      with (length (wire_rel (l0 :: pre))) by lia.
    rewrite firstn_app, firstn_all, Nat.sub_diag. cbn [firstn]. apply app_nil_r. }
  assert (Er : rest = wire_rel (l0 :: pre)) by (rewrite <- Hrest; congruence).
  assert (Ep : p = pos + ln - len (wire_rel ls')) by congruence.
  clear H.
  exists (l0 :: pre), ls', entry. rewrite Nat2N.id.
  split; [rewrite E; reflexivity|]. split; [intros ->; cbn in Z; lia|]. split; [exact Er|].
  split; [exact Hpar|]. rewrite Hpos, Hln. split; [exact Hs|]. split; [exact He|].
  assert (Hle : (length (wire_rel ls') <= j)%nat) by (unfold len in L; lia).
  split; [lia|]. split; [rewrite He; exact Ep|].
  rewrite <- (lastn_app (length (wire_rel ls')) (wire_rel (l0 :: pre)) (wire_rel ls') eq_refl) at 2.
  rewrite <- Hsplit. symmetry. eapply ci_suffix_shrink; [exact Hle|exact Hj1|exact Hj2|exact Hci].
Qed.

Lemma slot_sound st c n parent next i pos ln entry i' rest h p :
  n <> [] ->
  slot_body (wire_rel n) entry next i pos ln = LkHit i' rest h p ->
  nth i (cs_par st) 0 = parent -> nth i (cs_pos st) 0 = pos -> nth i (cs_len st) 0 = ln ->
  slice_opt c pos ln = Some entry -> len entry = ln ->
  next = LkHit i' rest h p \/ (i' = N.of_nat i /\ hit_ok st c n parent (N.of_nat i) rest p).
Proof.
  intros Hn H Hpar Hpos Hln Hs He. unfold slot_body in H.
  destruct (mismatch_pos (rev (wire_rel n)) (rev entry) 0) as [sl|] eqn:M.
  - apply mismatch_some_suffix in M as (j & -> & J1 & J2 & J3).
    apply (aligned_sound st c n parent next i pos ln entry (N.of_nat j) j i' rest h p); auto; lia.
  - apply mismatch_none_suffix in M. cbv zeta in M.
    destruct (N.ltb_spec (len entry) (len (wire_rel n))) as [L|L].
    + rewrite Nat.min_r in M by (unfold len in L; lia).
      apply (aligned_sound st c n parent next i pos ln entry (len entry) (length entry) i' rest h p); auto; unfold len in *; lia.
    + rewrite Nat.min_l in M by (unfold len in L; lia).
      injection H as Ei Er Eh Ep. subst i' rest h p. right. split; [reflexivity|]. exists [], n, entry. rewrite Nat2N.id.
      split; [reflexivity|]. split; [exact Hn|]. split; [reflexivity|]. split; [exact Hpar|].
      rewrite Hpos, Hln. split; [exact Hs|]. split; [exact He|]. split; [unfold len in L; lia|].
      split; [rewrite He; reflexivity|].
      rewrite <- M. unfold lastn. rewrite Nat.sub_diag. reflexivity.
Qed.

Theorem lookup_hit_sound k : forall i0 st c n parent poff hash i rest h p, n <> [] ->
  lookup_from k i0 st c (wire_rel n) parent poff hash = LkHit i rest h p ->
  hit_ok st c n parent i rest p.
Proof.
  induction k as [|k IH]; intros i0 st c n parent poff hash i rest h p Hn H; [discriminate H|].
  rewrite lookup_step in H. cbv zeta in H.
  destruct (negb (nth i0 (cs_hash st) 0 =? hash) || negb (nth i0 (cs_par st) 0 =? parent)) eqn:F; [eapply IH; eauto|].
  apply orb_false_iff in F as [_ F]. apply negb_false_iff, N.eqb_eq in F.
  destruct (nth i0 (cs_len st) 0 =? 0); [destruct cmp_skips_unused; [eapply IH; eauto|discriminate H]|].
  destruct (slice_opt c (nth i0 (cs_pos st) 0) (nth i0 (cs_len st) 0)) as [entry|] eqn:S; [|discriminate H].
  destruct (negb (attach_ok c (nth i0 (cs_pos st) 0) (nth i0 (cs_len st) 0) poff)); [eapply IH; eauto|].
  assert (He : len entry = nth i0 (cs_len st) 0).
  { unfold slice_opt in S. destruct (N.ltb_spec (len c) (nth i0 (cs_pos st) 0 + nth i0 (cs_len st) 0)); [discriminate S|].
    inversion S. unfold len in *. rewrite firstn_length, skipn_length. lia. }
  destruct (slot_sound st c n parent _ i0 _ _ entry i rest h p Hn H F eq_refl eq_refl S He) as [N|[-> HK]].
  - eapply IH; eauto.
  - exact HK.
Qed.

(* no slot can hit if every slot that passes the hash/parent filter is empty *)
Lemma lookup_nohit k : forall i0 st c name parent poff hash,
  (forall i, nth i (cs_hash st) 0 = hash -> nth i (cs_par st) 0 = parent -> nth i (cs_len st) 0 = 0) ->
  forall i r h p, lookup_from k i0 st c name parent poff hash <> LkHit i r h p.
Proof.
  induction k as [|k IH]; intros i0 st c name parent poff hash Hz i r h p; [discriminate|].
  rewrite lookup_step. cbv zeta.
  destruct (N.eqb_spec (nth i0 (cs_hash st) 0) hash) as [E1|E1]; cbn [negb orb]; [|apply IH; exact Hz].
  destruct (N.eqb_spec (nth i0 (cs_par st) 0) parent) as [E2|E2]; cbn [negb]; [|apply IH; exact Hz].
  rewrite (Hz i0 E1 E2). cbn [N.eqb]. destruct cmp_skips_unused; [apply IH; exact Hz|discriminate].
Qed.

(* ================= (B) octets equal up to case decode to the same labels ================= *)
Lemma lower_small b x : lower b = x -> x < 65 -> b = x.
Proof. unfold lower. destruct ((65 <=? b) && (b <=? 90)) eqn:E; lia. Qed.

Lemma lower_id_small x : x < 65 -> lower x = x.
Proof. unfold lower. destruct ((65 <=? x) && (x <=? 90)) eqn:E; lia. Qed.

Lemma nth_error_mid {A} (a : list A) x r : nth_error (a ++ x :: r) (length a) = Some x.
Proof. rewrite nth_error_app2, Nat.sub_diag by lia. reflexivity. Qed.

Section DECODE.
Variables (h c : bytes).
Hypothesis Hh : length h = 12%nat.
Let m := h ++ c.

Lemma path_ci : forall n, Forall valid_label n ->
  forall pre E post, c = pre ++ E ++ post -> lowers E = lowers (wire_rel n) ->
    exists n', canon n' = canon n /\ wire_len n' = wire_len n /\ wire_rel n' = E /\ Forall valid_label n' /\
      forall nl, nl + N.of_nat (wire_len n) < 255 -> forall R seg tail e,
        dpath R m (12 + len pre + len E) seg (nl + N.of_nat (wire_len n)) tail e ->
        dpath R m (12 + len pre) seg nl (n' ++ tail) e.
Proof.
  induction n as [|l ls IH]; intros Hv pre E post Hc HE.
  - destruct E; [|discriminate HE]. exists []. repeat split; auto.
    intros nl Hnl R seg tail e D. cbn [wire_len app len length] in *.
    change (len []) with 0 in D.
    replace (12 + len pre + 0) with (12 + len pre) in D by lia.
    replace (nl + N.of_nat 0) with nl in D by lia. exact D.
  - pose proof (Forall_inv Hv) as [Hl1 Hl2]. pose proof (Forall_inv_tail Hv) as Hv'.
    rewrite wire_rel_cons in HE. unfold wire_label in HE. cbn [app] in HE.
    destruct E as [|e0 E']; [discriminate HE|].
    unfold lowers in HE. cbn [map] in HE. injection HE as He0 HE'.
    rewrite (lower_id_small (N.of_nat (length l))) in He0 by lia.
    apply lower_small in He0; [|lia]. subst e0.
    rewrite map_app in HE'.
    set (El := firstn (length l) E'). set (Els := skipn (length l) E').
    assert (HE'len : length (map lower E') = (length l + length (map lower (wire_rel ls)))%nat).
    { rewrite HE', app_length, map_length. reflexivity. }
    rewrite !map_length in HE'len.
    assert (HEl : length El = length l) by (unfold El; rewrite firstn_length; lia).
    assert (Hsplit : E' = El ++ Els) by (unfold El, Els; symmetry; apply firstn_skipn).
    assert (HlEl : lowers El = lowers l /\ lowers Els = lowers (wire_rel ls)).
    { unfold lowers, El, Els. rewrite <- firstn_map, <- skipn_map, HE'.
      rewrite firstn_app, firstn_all2, skipn_app, skipn_all2 by (rewrite map_length; lia).
      rewrite map_length, Nat.sub_diag. cbn [firstn skipn]. rewrite app_nil_r. split; reflexivity. }
    destruct HlEl as [HlEl HlEls].
    destruct (IH Hv' (pre ++ N.of_nat (length l) :: El) Els post)
      as (n'' & Hcan & Hwl & Hwr & Hv'' & P).
    { rewrite Hc, Hsplit. cbn [app]. repeat (rewrite <- app_assoc; cbn [app]). reflexivity. }
    { exact HlEls. }
    assert (HvEl : valid_label El).
    { split; [lia|]. unfold wf_bytes. rewrite Forall_forall. intros x Hx.
      (* octets of El are lower-equal to octets of l; need < 256: from lowers El = lowers l and wf l *)
      assert (Hin : In (lower x) (lowers l)) by (rewrite <- HlEl; unfold lowers; apply in_map; exact Hx).
      unfold lowers in Hin. apply in_map_iff in Hin as (y & Hy & Hyin).
      unfold wf_bytes in Hl2. rewrite Forall_forall in Hl2. specialize (Hl2 y Hyin).
      unfold lower in Hy. destruct ((65 <=? y) && (y <=? 90)) eqn:Ey; destruct ((65 <=? x) && (x <=? 90)) eqn:Ex; lia. }
    exists (El :: n''). split.
    { unfold canon in *. cbn [map]. rewrite Hcan. f_equal. exact HlEl. }
    split; [cbn [wire_len]; rewrite HEl, Hwl; reflexivity|]. split.
    { rewrite wire_rel_cons, Hwr. unfold wire_label. rewrite HEl, Hsplit. reflexivity. }
    split; [constructor; auto|].
    intros nl Hnl R seg tail e D. cbn [app].
    assert (Hm : m = (h ++ pre) ++ N.of_nat (length l) :: El ++ Els ++ post).
    { unfold m. rewrite Hc, Hsplit. cbn [app]. repeat (rewrite <- app_assoc; cbn [app]). reflexivity. }
    assert (Hcur : 12 + len pre = N.of_nat (length (h ++ pre))) by (rewrite app_length, Hh; unfold len; lia).
    assert (Hsl : slice m (12 + len pre + 1) (12 + len pre + 1 + N.of_nat (length l)) = El).
    { unfold slice. replace (12 + len pre + 1 + N.of_nat (length l) - (12 + len pre + 1)) with (N.of_nat (length l)) by lia.
      rewrite Hm. replace (N.to_nat (12 + len pre + 1)) with (length ((h ++ pre) ++ [N.of_nat (length l)]))
        by (rewrite !app_length, Hh; cbn [length]; unfold len; lia).
      change (N.of_nat (length l) :: El ++ Els ++ post) with ([N.of_nat (length l)] ++ El ++ Els ++ post).
      rewrite app_assoc, drop_app_length. rewrite Nat2N.id, <- HEl. apply take_app_length. }
    rewrite <- Hsl.
    eapply dp_label.
    + unfold get. rewrite Hcur, Nat2N.id, Hm. apply nth_error_mid.
    + lia.
    + lia.
    + unfold mlen. rewrite Hm, !app_length, Hh. cbn [length]. rewrite !app_length, HEl. unfold len. lia.
    + cbn [wire_len] in Hnl. lia.
    + specialize (P (nl + N.of_nat (length l) + 1) ltac:(cbn [wire_len] in Hnl; lia) R seg tail e).
      replace (12 + len pre + 1 + N.of_nat (length l)) with (12 + len (pre ++ N.of_nat (length l) :: El))
        by (unfold len; rewrite app_length; cbn [length]; rewrite HEl; lia).
      apply P.
      replace (12 + len (pre ++ N.of_nat (length l) :: El) + len Els) with (12 + len pre + len (N.of_nat (length l) :: E'))
        by (rewrite Hsplit; unfold len; rewrite !app_length; cbn [length]; rewrite app_length; lia).
      replace (nl + N.of_nat (length l) + 1 + N.of_nat (wire_len ls)) with (nl + N.of_nat (wire_len (l :: ls)))
        by (cbn [wire_len]; lia).
      exact D.
Qed.
End DECODE.

(* ================= (C) a fresh compressor and two names ================= *)
Lemma nth_zeros i : nth i zeros32 0 = 0.
Proof. unfold zeros32. apply nth_repeat. Qed.

Lemma nth_set0 i v : nth i (set_nth zeros32 0 v) 0 = if Nat.eqb i 0 then v else 0.
Proof.
  destruct i as [|i]; [reflexivity|]. change (nth i (repeat 0 31) 0 = 0). apply nth_repeat.
Qed.

Definition single (st : cstate) (pos0 ln0 h0 : N) : Prop :=
  cs_pos st = set_nth zeros32 0 pos0 /\ cs_len st = set_nth zeros32 0 ln0 /\
  cs_par st = set_nth zeros32 0 64 /\ cs_hash st = set_nth zeros32 0 h0.

Lemma wire_rel_nonnil n : n <> [] -> wire_rel n <> [].
Proof. destruct n; [contradiction|]. intros _. rewrite wire_rel_cons. discriminate. Qed.

Lemma compress_loop_fresh fuel c name hash r : name <> [] ->
  compress_loop fuel cs_new c name cn_no_parent None hash = Ok r -> r = (cs_new, name, cn_no_parent, None, hash).
Proof.
  intros Hn H. destruct fuel as [|fuel]; [discriminate H|]. cbn [compress_loop] in H.
  destruct name as [|x name]; [contradiction|].
  destruct (lookup_from 32 0 cs_new c (x :: name) cn_no_parent None hash) as [|i rest h p|s] eqn:L.
  - inversion H. reflexivity.
  - exfalso. eapply lookup_nohit; [|exact L]. intros j _ Hp. cbn [cs_par cs_new] in Hp. rewrite nth_zeros in Hp. discriminate Hp.
  - discriminate H.
Qed.

Lemma compress_loop_single fuel st c n hash pos0 ln0 h0 st' name' parent' poff' hash' :
  single st pos0 ln0 h0 -> n <> [] ->
  compress_loop fuel st c (wire_rel n) cn_no_parent None hash = Ok (st', name', parent', poff', hash') ->
  (poff' = None /\ name' = wire_rel n) \/
  (exists p, poff' = Some p /\ hit_ok st c n 64 0 name' p /\ p + 12 < 16384).
Proof.
  intros (Spos & Slen & Spar & Shash) Hn H.
  destruct fuel as [|fuel]; [discriminate H|]. cbn [compress_loop] in H.
  destruct (wire_rel n) as [|x nm] eqn:En; [exfalso; eapply wire_rel_nonnil; eauto|]. rewrite <- En in *.
  destruct (lookup_from 32 0 st c (wire_rel n) cn_no_parent None hash) as [|i rest h p|s] eqn:L.
  - inversion H; subst. left. auto.
  - pose proof (lookup_hit_sound _ _ _ _ _ _ _ _ _ _ _ _ Hn L) as HK.
    assert (Hi : i = 0).
    { destruct HK as (? & ? & ? & _ & _ & _ & Hp & _). rewrite Spar, nth_set0 in Hp.
      destruct (Nat.eqb_spec (N.to_nat i) 0); [lia|discriminate Hp]. }
    subst i.
    change cn_range_check with true in H. change cn_range_ge with true in H.
    change cn_range_add with 12 in H. change cn_range_bound with 16384 in H.
    unfold cmp_ge in H. cbn [andb] in H.
    destruct (N.leb_spec 16384 (p + 12)) as [Hr|Hr].
    + inversion H; subst. left. auto.
    + right. exists p.
      set (st1 := if cmp_lt cn_use_strict (N.max (len c + len rest) cn_use_floor) cn_use_bound
                  then mkC (set_nth (cs_use st) (N.to_nat 0) (N.max (len c + len rest) cn_use_floor)) (cs_pos st) (cs_len st) (cs_par st) (cs_hash st)
                  else st) in H.
      assert (S1 : cs_len st1 = cs_len st /\ cs_par st1 = cs_par st).
      { unfold st1. destruct (cmp_lt _ _ _); auto. }
      destruct S1 as [S1l S1p].
      destruct fuel as [|fuel]; [discriminate H|]. cbn [compress_loop] in H.
      destruct rest as [|y rest].
      * inversion H; subst. auto.
      * destruct (lookup_from 32 0 st1 c (y :: rest) 0 (Some p) h) as [|i2 r2 h2 p2|s] eqn:L2.
        -- inversion H; subst. auto.
        -- exfalso. eapply lookup_nohit; [|exact L2]. intros j _ Hp. rewrite S1l, Slen, nth_set0.
           rewrite S1p, Spar, nth_set0 in Hp. destruct (Nat.eqb j 0); [discriminate Hp|reflexivity].
        -- discriminate H.
  - discriminate H.
Qed.

Lemma firstn_wire_abs n : firstn (length (wire_abs n) - 1) (wire_abs n) = wire_rel n.
Proof.
  unfold wire_abs. rewrite app_length. cbn [length].
  replace (length (wire_rel n) + 1 - 1)%nat with (length (wire_rel n)) by lia.
  rewrite firstn_app, firstn_all, Nat.sub_diag. cbn [firstn]. apply app_nil_r.
Qed.

Lemma wf_wire_rel n : Forall valid_label n -> wf_bytes (wire_rel n).
Proof.
  induction 1 as [|l ls [Hl1 Hl2] _ IH]; [constructor|].
  rewrite wire_rel_cons. unfold wire_label. apply wf_bytes_app. split; [|exact IH].
  constructor; [lia|exact Hl2].
Qed.

Local Opaque compress_loop lookup_from last_label hash_label.

(* the state after the first name *)
Lemma first_name_state c0 n1 res st1 : n1 <> [] -> (wire_len n1 <= 254)%nat ->
  compress_name cs_new c0 (wire_abs n1) = Ok (res, st1) ->
  res = None /\ (st1 = cs_new \/ exists h1, single st1 (len c0) (len (wire_rel n1)) h1 /\ len c0 + 12 < 16384).
Proof.
  intros Hn Hl H. unfold compress_name in H. rewrite firstn_wire_abs in H.
  assert (L2 : len (wire_rel n1) mod 256 = len (wire_rel n1)).
  { apply N.mod_small. unfold len. rewrite wire_rel_length. lia. }
  destruct (wire_rel n1) as [|x nm] eqn:En; [exfalso; eapply wire_rel_nonnil; eauto|].
  cbv beta iota in H.
  destruct (last_label (x :: nm)) as [lab| | |]; cbn [bind] in H; try discriminate H.
  destruct (compress_loop (S (length (x :: nm))) cs_new c0 (x :: nm) cn_no_parent None (hash_label lab)) as [r| | |] eqn:EL;
    cbn [bind] in H; try discriminate H.
  apply compress_loop_fresh in EL; [|discriminate]. subst r. cbv iota beta in H.
  change cn_reg_strict with true in H. change cn_reg_add with 12 in H. change cn_reg_bound with 16384 in H.
  unfold cmp_lt in H.
  destruct (N.ltb_spec (len c0 + 12) 16384) as [Hr|Hr]; inversion H; subst; split; auto.
  right. exists (hash_label lab). split; [|exact Hr].
  assert (L1 : len c0 mod 65536 = len c0) by (apply N.mod_small; lia).
  unfold single. cbn [cs_pos cs_len cs_par cs_hash cs_use cs_new].
  change (first_min zeros32) with 0%nat. rewrite L1, L2. auto.
Qed.

Lemma compress_name_single st c n pos0 ln0 h0 res st' : single st pos0 ln0 h0 -> n <> [] ->
  compress_name st c (wire_abs n) = Ok (res, st') ->
  res = None \/ exists rest p, res = Some (rest, p) /\ hit_ok st c n 64 0 rest p /\ p + 12 < 16384.
Proof.
  intros Hs Hn H. unfold compress_name in H. rewrite firstn_wire_abs in H.
  destruct (wire_rel n) as [|x nm] eqn:En; [exfalso; eapply wire_rel_nonnil; eauto|].
  cbv beta iota in H.
  destruct (last_label (x :: nm)) as [lab| | |]; cbn [bind] in H; try discriminate H.
  destruct (compress_loop (S (length (x :: nm))) st c (x :: nm) cn_no_parent None (hash_label lab))
    as [[[[[st1 name'] parent] poff] hash]| | |] eqn:EL; cbn [bind] in H; try discriminate H.
  rewrite <- En in EL. eapply compress_loop_single in EL; eauto.
  destruct EL as [[-> ->]|(p & -> & HK & Hr)].
  - left. congruence.
  - right. exists name', p. split; [congruence|auto].
Qed.

Lemma slice_opt_mid a b r : slice_opt (a ++ b ++ r) (len a) (len b) = Some b.
Proof.
  unfold slice_opt. destruct (N.ltb_spec (len (a ++ b ++ r)) (len a + len b)) as [H|H].
  - unfold len in H. rewrite !app_length in H. lia.
  - unfold len. rewrite !Nat2N.id, drop_app_length, take_app_length. reflexivity.
Qed.

Lemma ptr_val_of v q : v = q + 49164 -> q + 12 < 16384 -> 192 <= v / 256 /\ ptr_val (v / 256) (v mod 256) = q + 12.
Proof. intros -> H. unfold ptr_val. split; lia. Qed.

Ltac app_eq := repeat (progress (rewrite <- ?app_assoc; cbn [app])); reflexivity.

Section FINAL.
Variable h : bytes.
Hypothesis Hh : length h = 12%nat.

Lemma verbatim_reads pre n post c : c = pre ++ wire_abs n ++ post -> Forall valid_label n -> (wire_len n <= 254)%nat ->
  exists n', canon n' = canon n /\
    forall R seg, dpath R (h ++ c) (12 + len pre) seg 0 n' (12 + len pre + len (wire_abs n)).
Proof.
  intros Hc Hv Hl.
  destruct (path_ci h c Hh n Hv pre (wire_rel n) ([0] ++ post)) as (n' & Hcan & _ & _ & _ & P0).
  { rewrite Hc. unfold wire_abs. app_eq. }
  { reflexivity. }
  pose proof (P0 0 ltac:(lia)) as P.
  exists n'. split; [exact Hcan|]. intros R seg. rewrite <- (app_nil_r n').
  replace (12 + len pre + len (wire_abs n)) with (12 + len pre + len (wire_rel n) + 1)
    by (unfold wire_abs, len; rewrite app_length; cbn [length]; lia).
  apply P. constructor.
  unfold get. replace (N.to_nat (12 + len pre + len (wire_rel n))) with (length ((h ++ pre) ++ wire_rel n))
    by (rewrite !app_length, Hh; unfold len; lia).
  rewrite Hc. unfold wire_abs.
  replace (h ++ pre ++ (wire_rel n ++ [0]) ++ post) with (((h ++ pre) ++ wire_rel n) ++ 0 :: post)
    by app_eq.
  apply nth_error_mid.
Qed.

(* a name written as rest ++ pointer to a hit in the single entry reads back *)
Lemma pointer_reads c0 n1 n2 rest p st1 hh :
  Forall valid_label n1 -> n1 <> [] -> Forall valid_label n2 -> (wire_len n2 <= 254)%nat ->
  single st1 (len c0) (len (wire_rel n1)) hh ->
  hit_ok st1 (c0 ++ wire_abs n1) n2 64 0 rest p -> p + 12 < 16384 ->
  let v := p + 49164 in
  let c := c0 ++ wire_abs n1 ++ rest ++ [v / 256; v mod 256] in
  exists n2', canon n2' = canon n2 /\
    dpath R_new (h ++ c) (12 + (len c0 + len (wire_abs n1))) (12 + (len c0 + len (wire_abs n1))) 0 n2' (12 + len c).
Proof.
  intros Hv1 Hn1 Hv2 Hl2 (Spos & Slen & _ & _) HK Hr v c.
  destruct HK as (n_pre & n_suf & entry & Hsplit & Hsuf & Hrest & _ & Hslice & Hel & Hle & Hp & Hci).
  cbn [N.to_nat] in Hslice, Hel, Hp. rewrite Spos, Slen in Hslice. rewrite Spos in Hp. rewrite !nth_set0 in *. cbn [Nat.eqb] in *.
  assert (He : entry = wire_rel n1).
  { unfold wire_abs in Hslice. rewrite slice_opt_mid in Hslice. congruence. }
  subst entry.
  assert (Hv_pre : Forall valid_label n_pre /\ Forall valid_label n_suf) by (rewrite Hsplit in Hv2; apply Forall_app; exact Hv2).
  destruct Hv_pre as [Hvp Hvs].
  assert (Hwl : wire_len n2 = (wire_len n_pre + wire_len n_suf)%nat) by (rewrite Hsplit; apply wire_len_app).
  set (k := length (wire_rel n_suf)) in *.
  set (A := firstn (length (wire_rel n1) - k) (wire_rel n1)).
  set (B := lastn k (wire_rel n1)) in *.
  assert (HAB : wire_rel n1 = A ++ B) by (unfold A, B, lastn; symmetry; apply firstn_skipn).
  assert (HBlen : length B = k) by (unfold B; apply lastn_length; exact Hle).
  assert (HAlen : (length A + k = length (wire_rel n1))%nat).
  { pose proof (f_equal (@length N) HAB) as Q. rewrite app_length in Q. lia. }
  assert (Hpeq : p = len c0 + len A) by (unfold len in *; lia).
  (* the whole contents, cut at the target *)
  assert (Hc : c = (c0 ++ A) ++ B ++ ([0] ++ rest ++ [v / 256; v mod 256])).
  { unfold c, wire_abs. rewrite HAB. app_eq. }
  destruct (path_ci h c Hh n_suf Hvs (c0 ++ A) B ([0] ++ rest ++ [v / 256; v mod 256]) Hc Hci)
    as (ns' & Hcan_s & Hwl_s & Hwr_s & Hvs' & Ps0).
  pose proof (Ps0 (N.of_nat (wire_len n_pre)) ltac:(lia)) as Ps.
  assert (Hlen_cA : len (c0 ++ A) = p) by (unfold len; rewrite app_length; unfold len in Hpeq; lia).
  rewrite Hlen_cA in Ps.
  (* root label behind the entry *)
  assert (Droot : forall R seg nl, dpath R (h ++ c) (12 + p + len B) seg nl [] (12 + p + len B + 1)).
  { intros R seg nl. constructor. unfold get.
    replace (N.to_nat (12 + p + len B)) with (length ((h ++ c0 ++ A) ++ B)) by (rewrite !app_length, Hh; unfold len in *; lia).
    rewrite Hc. replace (h ++ (c0 ++ A) ++ B ++ [0] ++ rest ++ [v / 256; v mod 256])
      with (((h ++ c0 ++ A) ++ B) ++ 0 :: rest ++ [v / 256; v mod 256]) by app_eq.
    apply nth_error_mid. }
  pose proof (Ps R_new (12 + p) [] _ (Droot R_new (12 + p) _)) as Dt. rewrite app_nil_r in Dt.
  (* the first octet at the target is a label length *)
  assert (Hfirst : exists b', get (h ++ c) (12 + p) = Some b' /\ b' <= 63).
  { destruct ns' as [|l' ns'']; [cbn in Hwl_s; destruct n_suf; [contradiction|cbn in Hwl_s; lia]|].
    pose proof (Forall_inv Hvs') as [Hl'1 _].
    exists (N.of_nat (length l')). split; [|lia].
    rewrite wire_rel_cons in Hwr_s. unfold wire_label in Hwr_s. cbn [app] in Hwr_s.
    unfold get. replace (N.to_nat (12 + p)) with (length (h ++ c0 ++ A)) by (rewrite !app_length, Hh; unfold len in *; lia).
    rewrite Hc, <- Hwr_s.
    replace (h ++ (c0 ++ A) ++ (N.of_nat (length l') :: l' ++ wire_rel ns'') ++ [0] ++ rest ++ [v / 256; v mod 256])
      with ((h ++ c0 ++ A) ++ N.of_nat (length l') :: (l' ++ wire_rel ns'') ++ [0] ++ rest ++ [v / 256; v mod 256])
      by app_eq.
    apply nth_error_mid. }
  destruct Hfirst as (b' & Gb' & Hb').
  (* the pointer *)
  destruct (ptr_val_of v p eq_refl Hr) as [Hhi Hpv].
  set (s2 := len c0 + len (wire_abs n1)).
  set (cur := 12 + s2 + len rest).
  assert (Hcc : c = ((c0 ++ wire_abs n1) ++ rest) ++ [v / 256; v mod 256]) by (unfold c; app_eq).
  assert (Gh : get (h ++ c) cur = Some (v / 256)).
  { unfold get. replace (N.to_nat cur) with (length (h ++ (c0 ++ wire_abs n1) ++ rest))
      by (unfold cur, s2; rewrite !app_length, Hh; unfold len; lia).
    rewrite Hcc. replace (h ++ ((c0 ++ wire_abs n1) ++ rest) ++ [v / 256; v mod 256])
      with ((h ++ (c0 ++ wire_abs n1) ++ rest) ++ v / 256 :: [v mod 256]) by app_eq.
    apply nth_error_mid. }
  assert (Gl : get (h ++ c) (cur + 1) = Some (v mod 256)).
  { unfold get. replace (N.to_nat (cur + 1)) with (length ((h ++ (c0 ++ wire_abs n1) ++ rest) ++ [v / 256]))
      by (unfold cur, s2; rewrite !app_length, Hh; cbn [length]; unfold len; lia).
    rewrite Hcc. replace (h ++ ((c0 ++ wire_abs n1) ++ rest) ++ [v / 256; v mod 256])
      with (((h ++ (c0 ++ wire_abs n1) ++ rest) ++ [v / 256]) ++ v mod 256 :: []) by app_eq.
    apply nth_error_mid. }
  assert (Hplt : p + len B <= len c0 + len (wire_rel n1)) by (unfold len in *; lia).
  assert (PC : pchain R_new (h ++ c) (12 + s2) cur (12 + p)).
  { replace (12 + p) with (ptr_val (v / 256) (v mod 256)) by lia.
    eapply pc_last; eauto.
    - unfold R_new. rewrite Hpv. unfold s2, wire_abs, len in *. rewrite app_length. cbn [length]. lia.
    - rewrite Hpv. replace (p + 12) with (12 + p) by lia. exact Gb'. }
  assert (Dp : dpath R_new (h ++ c) cur (12 + s2) (N.of_nat (wire_len n_pre)) ns' (cur + 2)).
  { eapply dp_ptr; [exact PC|]. exact Dt. }
  (* the labels in front of the pointer *)
  destruct (path_ci h c Hh n_pre Hvp (c0 ++ wire_abs n1) rest [v / 256; v mod 256]) as (np' & Hcan_p & _ & _ & _ & Pp0).
  { unfold c. app_eq. }
  { rewrite Hrest. reflexivity. }
  pose proof (Pp0 0 ltac:(lia)) as Pp.
  exists (np' ++ ns'). split.
  { rewrite Hsplit. unfold canon in *. rewrite !map_app. f_equal; assumption. }
  replace (len (c0 ++ wire_abs n1)) with s2 in Pp by (unfold s2, len; rewrite app_length; lia).
  replace (12 + len c) with (cur + 2).
  2:{ unfold cur, s2. rewrite Hcc. unfold len. rewrite !app_length. cbn [length]. lia. }
  apply Pp. replace (0 + N.of_nat (wire_len n_pre)) with (N.of_nat (wire_len n_pre)) by lia. exact Dp.
Qed.
End FINAL.

Lemma wf_wire_abs n : Forall valid_label n -> wf_bytes (wire_abs n).
Proof. intros H. unfold wire_abs. apply wf_bytes_app. split; [apply wf_wire_rel; exact H|constructor; [lia|constructor]]. Qed.

Lemma build_first c0 n1 bs1 st1 : (wire_len n1 <= 254)%nat ->
  build_name cs_new c0 (wire_abs n1) = Ok (bs1, st1) ->
  bs1 = wire_abs n1 /\ (st1 = cs_new \/ (n1 <> [] /\ exists h1, single st1 (len c0) (len (wire_rel n1)) h1)).
Proof.
  intros Hl H. unfold build_name in H.
  destruct (compress_name cs_new c0 (wire_abs n1)) as [[res st]| | |] eqn:EC; cbn [bind] in H; try discriminate H.
  destruct n1 as [|l n1].
  - unfold compress_name in EC. cbn in EC. inversion EC; subst. inversion H. auto.
  - apply first_name_state in EC; [|discriminate|exact Hl]. destruct EC as [-> HS].
    inversion H; subst. split; [reflexivity|]. destruct HS as [->|(h1 & HS & _)]; [auto|].
    right. split; [discriminate|eauto].
Qed.

Lemma build_second c0 n1 n2 st1 bs2 st2 : (wire_len n2 <= 254)%nat ->
  (st1 = cs_new \/ (n1 <> [] /\ exists h1, single st1 (len c0) (len (wire_rel n1)) h1)) ->
  build_name st1 (c0 ++ wire_abs n1) (wire_abs n2) = Ok (bs2, st2) ->
  bs2 = wire_abs n2 \/
  (exists rest p h1, n1 <> [] /\ single st1 (len c0) (len (wire_rel n1)) h1 /\
     hit_ok st1 (c0 ++ wire_abs n1) n2 64 0 rest p /\ p + 12 < 16384 /\
     bs2 = rest ++ [(p + 49164) / 256; (p + 49164) mod 256]).
Proof.
  intros Hl HS H. unfold build_name in H.
  destruct (compress_name st1 (c0 ++ wire_abs n1) (wire_abs n2)) as [[res st]| | |] eqn:EC; cbn [bind] in H; try discriminate H.
  destruct n2 as [|l n2].
  - unfold compress_name in EC. cbn in EC. inversion EC; subst. inversion H. auto.
  - destruct HS as [->|(Hn1 & h1 & HS)].
    + apply first_name_state in EC; [|discriminate|exact Hl]. destruct EC as [-> _]. inversion H. auto.
    + eapply compress_name_single in EC; [|exact HS|discriminate].
      destruct EC as [->|(rest & p & -> & HK & Hr)]; [inversion H; auto|].
      change bim_ptr_add with 49164 in H.
      destruct (N.ltb_spec 65535 (p + 49164)); [lia|]. inversion H; subst.
      right. exists rest, p, h1. auto 8.
Qed.

Lemma compressor_two_names_paths (h c0 : bytes) (n1 n2 : name) (c : bytes) :
  length h = 12%nat -> wf_bytes c0 -> valid_abs n1 -> valid_abs n2 ->
  build_names cs_new c0 [wire_abs n1; wire_abs n2] = Ok c ->
  wf_bytes c /\
  (exists n1', canon n1' = canon n1 /\
     dpath R_new (h ++ c) (12 + len c0) (12 + len c0) 0 n1' (12 + (len c0 + len (wire_abs n1)))) /\
  (exists n2', canon n2' = canon n2 /\
     dpath R_new (h ++ c) (12 + (len c0 + len (wire_abs n1))) (12 + (len c0 + len (wire_abs n1))) 0 n2' (12 + len c)).
Proof.
  intros Hh Hwf0 [Hv1 Hl1] [Hv2 Hl2] H. cbn [build_names] in H.
  destruct (build_name cs_new c0 (wire_abs n1)) as [[bs1 st1]| | |] eqn:B1; cbn [bind] in H; try discriminate H.
  destruct (build_first _ _ _ _ Hl1 B1) as [-> HS].
  destruct (build_name st1 (c0 ++ wire_abs n1) (wire_abs n2)) as [[bs2 st2]| | |] eqn:B2; cbn [bind] in H; try discriminate H.
  assert (Hc : c = c0 ++ wire_abs n1 ++ bs2) by (inversion H; rewrite <- app_assoc; reflexivity).
  clear H.
  pose proof (build_second _ _ _ _ _ _ Hl2 HS B2) as HB.
  split.
  { rewrite Hc. apply wf_bytes_app. split; [exact Hwf0|]. apply wf_bytes_app. split; [apply wf_wire_abs; exact Hv1|].
    destruct HB as [->|(rest & p & h1 & _ & _ & HK & Hr & ->)]; [apply wf_wire_abs; exact Hv2|].
    destruct HK as (n_pre & n_suf & entry & Hsplit & _ & -> & _).
    apply wf_bytes_app. split.
    - apply wf_wire_rel. rewrite Hsplit in Hv2. apply Forall_app in Hv2. tauto.
    - repeat constructor; lia. }
  split.
  - destruct (verbatim_reads h Hh c0 n1 bs2 c Hc Hv1 Hl1) as (n1' & Hcan & D).
    exists n1'. split; [exact Hcan|].
    replace (12 + (len c0 + len (wire_abs n1))) with (12 + len c0 + len (wire_abs n1)) by lia. apply D.
  - destruct HB as [->|(rest & p & h1 & Hn1 & HS1 & HK & Hr & ->)].
    + destruct (verbatim_reads h Hh (c0 ++ wire_abs n1) n2 [] c) as (n2' & Hcan & D); auto.
      { rewrite Hc, app_nil_r. repeat (progress (rewrite <- ?app_assoc; cbn [app])). reflexivity. }
      exists n2'. split; [exact Hcan|].
      replace (len (c0 ++ wire_abs n1)) with (len c0 + len (wire_abs n1)) in D by (unfold len; rewrite app_length; lia).
      replace (12 + len c) with (12 + (len c0 + len (wire_abs n1)) + len (wire_abs n2))
        by (rewrite Hc; unfold len; rewrite !app_length; lia).
      apply D.
    + destruct (pointer_reads h Hh c0 n1 n2 rest p st1 h1 Hv1 Hn1 Hv2 Hl2 HS1 HK Hr) as (n2' & Hcan & D).
      cbv zeta in D. rewrite <- Hc in D. eauto.
Qed.

Theorem compressor_two_names_sound (h c0 : bytes) (n1 n2 : name) (c : bytes) :
  length h = 12%nat -> wf_bytes c0 -> valid_abs n1 -> valid_abs n2 ->
  build_names cs_new c0 [wire_abs n1; wire_abs n2] = Ok c ->
  (exists n1', canon n1' = canon n1 /\
     new_split c (len c0) = Ok (wire_abs n1', len c0 + len (wire_abs n1)) /\
     decode_name (h ++ c) (12 + len c0) (mlen (h ++ c)) = Ok (n1', 12 + (len c0 + len (wire_abs n1)))) /\
  (exists n2', canon n2' = canon n2 /\
     new_split c (len c0 + len (wire_abs n1)) = Ok (wire_abs n2', len c) /\
     decode_name (h ++ c) (12 + (len c0 + len (wire_abs n1))) (mlen (h ++ c)) = Ok (n2', 12 + len c)).
Proof.
  intros Hh Hwf0 V1 V2 H.
  destruct (compressor_two_names_paths h c0 n1 n2 c Hh Hwf0 V1 V2 H) as (Hwf & (n1' & C1 & D1) & (n2' & C2 & D2)).
  split.
  - exists n1'. split; [exact C1|]. split.
    + destruct (new_split_complete h c Hh Hwf _ _ _ D1) as [S _]. rewrite S. do 2 f_equal. lia.
    + apply old_complete. eapply dpath_mono; [|apply N.le_refl|exact D1].
      unfold R_new, R_old. intros; lia.
  - exists n2'. split; [exact C2|]. split.
    + destruct (new_split_complete h c Hh Hwf _ _ _ D2) as [S _]. rewrite S. do 2 f_equal. lia.
    + apply old_complete. eapply dpath_mono; [|apply N.le_refl|exact D2].
      unfold R_new, R_old. intros; lia.
Qed.

(* non-vacuity: a case with a pointer into the middle of the first name *)
Example two_names_example :
  let n1 := [[119;119;119];[101;120];[111;114;103]] in      (* www.ex.org *)
  let n2 := [[109];[69;88];[79;82;71]] in                    (* m.EX.ORG *)
  exists c, build_names cs_new [] [wire_abs n1; wire_abs n2] = Ok c /\
            c = wire_abs n1 ++ [1;109;192;16] /\ new_split c 12 = Ok ([1;109;2;101;120;3;111;114;103;0], 16).
Proof. eexists. split; [vm_compute; reflexivity|]. split; vm_compute; reflexivity. Qed.

