(* C19 proofs, part 14: the uncompressed name parser Name::split_bytes_by_ref
   accepts every valid name up to and including 255 octets, whatever follows. *)
From Coq Require Import NArith List Bool Lia ZArith.
From Coq Require Import ZifyN ZifyBool ZifyNat.
From DV Require Import Base.Outcome Base.Bytes Base.Names C19.Gen C19.Model.
Import ListNotations.
Local Open Scope N_scope.
Ltac Zify.zify_post_hook ::= Z.div_mod_to_equations.

Lemma get_from_app pre x : get_from (pre ++ x) (len pre) = Some x.
Proof.
  unfold get_from. destruct (N.ltb_spec (len (pre ++ x)) (len pre)) as [Q|_].
  { unfold len in Q. rewrite app_length in Q. lia. }
  unfold len. rewrite Nat2N.id. change (skipn (length pre) (pre ++ x)) with (drop (length pre) (pre ++ x)).
  rewrite drop_app_length. reflexivity.
Qed.

Lemma flat_walk_complete n : forall pre rest fuel, Forall valid_label n ->
  len pre + N.of_nat (wire_len n) + 1 <= 255 -> (length n < fuel)%nat ->
  flat_walk fuel (pre ++ wire_abs n ++ rest) (len pre) = Ok (pre ++ wire_abs n, rest).
Proof.
  induction n as [|l ls IH]; intros pre rest fuel Hv Hl Hf; (destruct fuel as [|fuel]; [cbn in Hf; lia|]); cbn [flat_walk].
  - change name_flat_strict with true. change name_flat_bound with 255. unfold cmp_lt.
    destruct (N.ltb_spec (len pre) 255); [|cbn in Hl; lia].
    rewrite get_from_app. change (wire_abs [] ++ rest) with (0 :: rest). cbn [N.eqb]. unfold len.
    replace (N.to_nat (N.of_nat (length pre) + 1)) with (length (pre ++ [0])) by (rewrite app_length; cbn [length]; lia).
    replace (pre ++ 0 :: rest) with ((pre ++ [0]) ++ rest) by (rewrite <- app_assoc; reflexivity).
    change (firstn (length (pre ++ [0])) ((pre ++ [0]) ++ rest)) with (take (length (pre ++ [0])) ((pre ++ [0]) ++ rest)).
    change (skipn (length (pre ++ [0])) ((pre ++ [0]) ++ rest)) with (drop (length (pre ++ [0])) ((pre ++ [0]) ++ rest)).
    rewrite take_app_length, drop_app_length. reflexivity.
  - pose proof (Forall_inv Hv) as [Hl1 Hl2]. pose proof (Forall_inv_tail Hv) as Hv'.
    cbn [wire_len] in Hl.
    change name_flat_strict with true. change name_flat_bound with 255. unfold cmp_lt.
    destruct (N.ltb_spec (len pre) 255); [|lia].
    rewrite get_from_app. rewrite wire_abs_cons.
    destruct (N.eqb_spec (N.of_nat (length l)) 0); [lia|].
    destruct (N.leb_spec (N.of_nat (length l)) 63); [|lia].
    destruct (N.leb_spec (N.of_nat (length l)) (len (l ++ wire_abs ls ++ rest))) as [_|Q]; [|unfold len in Q; rewrite app_length in Q; lia].
    cbn [andb].
    specialize (IH (pre ++ wire_label l) rest fuel Hv').
    replace (len pre + 1 + N.of_nat (length l)) with (len (pre ++ wire_label l)) by (unfold len, wire_label; rewrite app_length; cbn [length]; lia).
    replace (pre ++ N.of_nat (length l) :: l ++ wire_abs ls ++ rest) with ((pre ++ wire_label l) ++ wire_abs ls ++ rest)
      by (unfold wire_label; rewrite <- !app_assoc; reflexivity).
    rewrite IH.
    + f_equal. f_equal. unfold wire_abs, wire_rel. cbn [map concat]. rewrite <- !app_assoc. reflexivity.
    + unfold len, wire_label in *. rewrite app_length. cbn [length]. lia.
    + cbn in Hf. lia.
Qed.

Theorem flat_split_complete n rest : valid_abs n -> flat_split (wire_abs n ++ rest) = Ok (wire_abs n, rest).
Proof.
  intros [Hv Hl]. unfold flat_split.
  assert (Hn : (length n < 256)%nat).
  { assert (length n <= wire_len n)%nat by (clear; induction n; cbn; lia). lia. }
  exact (flat_walk_complete n [] rest 256 Hv ltac:(cbn; lia) Hn).
Qed.

(* 255 octets are accepted, 256 are not (seeded change C19-r4-1 moved this bound) *)
Example flat_boundary :
  let l63 := 63 :: repeat 120 63 in
  let n255 := l63 ++ l63 ++ l63 ++ (61 :: repeat 120 61) ++ [0] in
  let n256 := l63 ++ l63 ++ l63 ++ (62 :: repeat 120 62) ++ [0] in
  len n255 = 255 /\ flat_split n255 = Ok (n255, []) /\ len n256 = 256 /\ flat_split n256 = Err E_PARSE.
Proof. vm_compute. repeat split; reflexivity. Qed.
