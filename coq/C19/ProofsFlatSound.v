(* C19 proofs, part 17: the uncompressed name parser Name::split_bytes_by_ref,
   the converse of ProofsFlat.v: it never panics or runs out of fuel, whatever
   it accepts is the wire form of a valid absolute name followed by the octets
   it returns, hence it accepts exactly the octet strings that start with a
   valid name (of at most 255 octets). *)
From Coq Require Import NArith List Bool Lia ZArith.
From Coq Require Import ZifyN ZifyBool ZifyNat.
From DV Require Import Base.Outcome Base.Bytes Base.Names C19.Gen C19.Model C19.ProofsFlat.
Import ListNotations.
Local Open Scope N_scope.

(* ---- totality: the offset grows by at least 2 per label and stays < 255 ---- *)
Lemma flat_walk_total : forall fuel b off, (1 <= fuel)%nat -> 256 <= off + N.of_nat fuel ->
  no_panic (flat_walk fuel b off).
Proof.
  induction fuel as [|f IH]; intros b off H1 H2; [lia|]. cbn [flat_walk].
  change name_flat_strict with true. change name_flat_bound with 255. unfold cmp_lt.
  destruct (N.ltb_spec off 255) as [Ho|Ho]; [|exact I].
  destruct (get_from b off) as [[|l rest]|]; try exact I.
  destruct (N.eqb_spec l 0) as [|Hl]; [exact I|].
  destruct ((l <=? 63) && (l <=? len rest)); [|exact I].
  apply IH; lia.
Qed.

Theorem flat_split_total b : no_panic (flat_split b).
Proof. unfold flat_split. apply flat_walk_total; lia. Qed.

(* ---- soundness ---- *)
Lemma skipn_split {A} (a k : nat) (b x y : list A) : (a <= length b)%nat ->
  skipn a b = x ++ y -> length x = k ->
  skipn (a + k) b = y /\ firstn (a + k) b = firstn a b ++ x /\ (a + k <= length b)%nat.
Proof.
  intros Ha Hs Hk.
  assert (Hb : b = (firstn a b ++ x) ++ y).
  { rewrite <- app_assoc, <- Hs. symmetry. apply firstn_skipn. }
  assert (Hl : length (firstn a b ++ x) = (a + k)%nat).
  { rewrite app_length, firstn_length, Hk. lia. }
  remember (firstn a b ++ x) as P eqn:HP. clear HP Hs. rewrite <- Hl. subst b. split; [|split].
  - apply (drop_app_length P y).
  - apply (take_app_length P y).
  - rewrite app_length. lia.
Qed.

Lemma get_from_some c start bs : get_from c start = Some bs ->
  (N.to_nat start <= length c)%nat /\ bs = skipn (N.to_nat start) c.
Proof.
  unfold get_from. destruct (N.ltb_spec (len c) start) as [|H]; [discriminate|].
  intros Q; inversion Q. unfold len in H. split; [lia|reflexivity].
Qed.

Lemma flat_walk_sound : forall fuel b off w rest, wf_bytes b ->
  flat_walk fuel b off = Ok (w, rest) ->
  exists n, Forall valid_label n /\
    skipn (N.to_nat off) b = wire_abs n ++ rest /\
    w = firstn (N.to_nat off) b ++ wire_abs n /\
    off + N.of_nat (wire_len n) + 1 <= 255.
Proof.
  induction fuel as [|f IH]; intros b off w rest Hwf H; [discriminate|]. cbn [flat_walk] in H.
  change name_flat_strict with true in H. change name_flat_bound with 255 in H. unfold cmp_lt in H.
  destruct (N.ltb_spec off 255) as [Ho|Ho]; [|discriminate].
  destruct (get_from b off) as [[|l r]|] eqn:G; try discriminate.
  apply get_from_some in G. destruct G as [Ga Gs]. symmetry in Gs.
  destruct (N.eqb_spec l 0) as [Hl|Hl].
  - subst l. inversion H; subst w rest; clear H.
    destruct (skipn_split (N.to_nat off) 1 b [0] r Ga Gs eq_refl) as (S1 & S2 & _).
    replace (N.to_nat (off + 1)) with (N.to_nat off + 1)%nat by lia.
    exists []. split; [constructor|]. change (wire_abs []) with [0].
    rewrite S1, S2. cbn [wire_len]. repeat split; try assumption; lia.
  - destruct (N.leb_spec l 63) as [H63|]; [|discriminate].
    destruct (N.leb_spec l (len r)) as [Hr|]; [|discriminate]. cbn [andb] in H.
    apply IH in H; [|exact Hwf]. destruct H as (n' & Hv & Hs & Hw & Hlen).
    set (lab := firstn (N.to_nat l) r).
    assert (Hlab : length lab = N.to_nat l).
    { unfold lab. rewrite firstn_length. unfold len in Hr. lia. }
    assert (Gs' : skipn (N.to_nat off) b = (l :: lab) ++ skipn (N.to_nat l) r).
    { rewrite Gs. cbn [app]. f_equal. unfold lab. symmetry. apply firstn_skipn. }
    destruct (skipn_split (N.to_nat off) (1 + N.to_nat l) b (l :: lab) _ Ga Gs') as (S1 & S2 & _).
    { cbn [length]. lia. }
    replace (N.to_nat (off + 1 + l)) with (N.to_nat off + (1 + N.to_nat l))%nat in Hs, Hw by lia.
    assert (Hwl : wf_bytes lab).
    { rewrite <- (firstn_skipn (N.to_nat off) b) in Hwf. apply wf_bytes_app in Hwf. destruct Hwf as [_ Hwf].
      rewrite Gs' in Hwf. apply wf_bytes_app in Hwf. destruct Hwf as [Hwf _].
      exact (Forall_inv_tail Hwf). }
    exists (lab :: n'). split; [|split; [|split]].
    + constructor; [|exact Hv]. split; [lia|exact Hwl].
    + rewrite wire_abs_cons, Hlab, N2Nat.id, Gs', <- S1, Hs. reflexivity.
    + rewrite Hw, S2. rewrite <- app_assoc. f_equal.
      rewrite <- (app_nil_r (wire_abs (lab :: n'))). rewrite wire_abs_cons. rewrite Hlab, N2Nat.id.
      rewrite app_nil_r. cbn [app]. reflexivity.
    + cbn [wire_len]. lia.
Qed.

Theorem flat_split_sound b w rest : wf_bytes b -> flat_split b = Ok (w, rest) ->
  exists n, valid_abs n /\ w = wire_abs n /\ b = wire_abs n ++ rest.
Proof.
  intros Hwf H. unfold flat_split in H. apply flat_walk_sound in H; [|exact Hwf].
  destruct H as (n & Hv & Hs & Hw & Hl). cbn [N.to_nat skipn firstn app] in Hs, Hw.
  exists n. split; [split; [exact Hv|lia]|]. split; assumption.
Qed.

(* the accepted octet strings, exactly; the result is determined by the name *)
Theorem flat_split_iff b : wf_bytes b -> forall w rest,
  flat_split b = Ok (w, rest) <-> exists n, valid_abs n /\ w = wire_abs n /\ b = wire_abs n ++ rest.
Proof.
  intros Hwf w rest. split; [apply flat_split_sound; exact Hwf|].
  intros (n & Hv & -> & ->). apply flat_split_complete. exact Hv.
Qed.

(* everything else is a ParseError: never a panic, never a different error *)
Theorem flat_split_reject b : wf_bytes b ->
  (~ exists n rest, valid_abs n /\ b = wire_abs n ++ rest) -> flat_split b = Err E_PARSE.
Proof.
  intros Hwf Hn. pose proof (flat_split_total b) as T.
  destruct (flat_split b) as [[w rest]|e| |] eqn:E; try contradiction.
  - exfalso. apply Hn. destruct (flat_split_sound b w rest Hwf E) as (n & Hv & _ & Hb). eauto.
  - f_equal. revert E. unfold flat_split. generalize 256%nat, 0.
    intros fuel. induction fuel as [|f IH]; intros off; [discriminate|]. cbn [flat_walk].
    destruct (cmp_lt name_flat_strict off name_flat_bound); [|intros Q; inversion Q; reflexivity].
    destruct (get_from b off) as [[|l r]|]; try (intros Q; inversion Q; reflexivity).
    destruct (l =? 0); [discriminate|].
    destruct ((l <=? 63) && (l <=? len r)); [apply IH|intros Q; inversion Q; reflexivity].
Qed.

(* the parser consumes exactly the name: splitting is stable under any suffix *)
Theorem flat_split_suffix b w rest more : wf_bytes b -> flat_split b = Ok (w, rest) ->
  flat_split (b ++ more) = Ok (w, rest ++ more).
Proof.
  intros Hwf H. destruct (flat_split_sound b w rest Hwf H) as (n & Hv & -> & ->).
  rewrite <- app_assoc. apply flat_split_complete. exact Hv.
Qed.

(* non-vacuity: a name with trailing octets; a label running past the end; a
   pointer octet (no decompression in this parser) *)
Example flat_sound_ex :
  flat_split [1; 97; 0; 7; 7] = Ok ([1; 97; 0], [7; 7]) /\
  flat_split [3; 97; 98] = Err E_PARSE /\ flat_split [192; 12] = Err E_PARSE /\ flat_split [] = Err E_PARSE.
Proof. vm_compute. repeat split; reflexivity. Qed.
