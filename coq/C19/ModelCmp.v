(* C19 model, part 3: the new name compressor
     new/base/name/compressor.rs  NameCompressor::{compress_name,
        lookup_entry_for_name, last_label, hash_label}
     new/base/name/absolute.rs    impl BuildInMessage for Name
   The five arrays of NameCompressor are lists of 32 numbers.  `contents` is
   the message contents written so far (what build_in_message passes as
   &contents[..start]).  The three repairs proposed in pending/C19-*.diff are
   recognised by T1 (cmp_checks_attach, cmp_aligns_suffix, c?_range_check) and
   switch the corresponding branch, so that the model follows /repo. *)
From Coq Require Import NArith List Bool.
From DV Require Import Base.Outcome Base.Bytes C19.Gen C19.Model.
Import ListNotations.
Local Open Scope N_scope.

Definition PC_UNREACHABLE : N := 30.  (* last_label: unreachable!("a valid last label could not be found") *)
Definition PC_CONTENTS : N := 31.     (* panic!("'contents' did not correspond to the name compressor state") *)
Definition PC_ASSERT_LEN : N := 32.   (* debug_assert_ne!(len, 0) *)
Definition PC_ADD_OVERFLOW : N := 33. (* (addr + 0xC00C): u16 overflow *)
Definition PC_UNCHECKED : N := 34.    (* LabelIter::new_unchecked over something that is not a label sequence *)

Definition M64 : N := 18446744073709551616.

(* ---- hash_label (64-bit target) ---- *)
Definition multiply_mix (x y : N) : N := let p := x * y in N.lxor (p mod M64) (p / M64).
Fixpoint le_val (l : bytes) : N := match l with [] => 0 | b :: t => b + 256 * le_val t end.
Definition OR64 : N := 2314885530818453536.   (* 0x2020202020202020 *)
Definition OR32 : N := 538976288.             (* 0x20202020 *)
Definition sub (l : bytes) (a n : nat) : bytes := firstn n (skipn a l).

Fixpoint hash_bulk (fuel : nat) (l : bytes) (off : nat) (s0 s1 : N) : N * N :=
  match fuel with
  | O => (s0, s1)
  | S f =>
      if Nat.ltb off (length l - 16) then
        let i0 := N.lor (le_val (sub l off 8)) OR64 in
        let i1 := N.lor (le_val (sub l (off + 8) 8)) OR64 in
        let t := multiply_mix (N.lxor s0 i0) (N.lxor hash_m i1) in
        hash_bulk f l (off + 16) s1 t
      else (s0, s1)
  end.

Definition hash_label (l : bytes) : N :=
  let n := length l in
  let '(s0, s1) :=
    if Nat.leb n 16 then
      if Nat.leb 8 n then
        (N.lxor hash_seed1 (N.lor (le_val (sub l 0 8)) OR64),
         N.lxor hash_seed2 (N.lor (le_val (sub l (n - 8) 8)) OR64))
      else if Nat.leb 4 n then
        (N.lxor hash_seed1 (N.lor (le_val (sub l 0 4)) OR32),
         N.lxor hash_seed2 (N.lor (le_val (sub l (n - 4) 4)) OR32))
      else if Nat.ltb 0 n then
        let lo := N.lor (nth 0 l 0) 32 in
        let mid := N.lor (nth (Nat.div n 2) l 0) 32 in
        let hi := N.lor (nth (n - 1) l 0) 32 in
        (N.lxor hash_seed1 lo, N.lxor hash_seed2 (N.lor (hi * 256) mid))
      else (hash_seed1, hash_seed2)
    else
      let '(a, b) := hash_bulk 8 l 0 hash_seed1 hash_seed2 in
      (N.lxor a (N.lor (le_val (sub l (n - 16) 8)) OR64),
       N.lxor b (N.lor (le_val (sub l (n - 8) 8)) OR64))
  in N.shiftr (multiply_mix s0 s1) hash_shift mod 65536.

(* ---- labels of an (assumed valid) relative name ---- *)
(* LabelIter::next on `remaining`: (label wire, rest) *)
Definition next_label (rem : bytes) : option (bytes * bytes) :=
  match rem with
  | [] => None
  | l :: _ => let k := N.to_nat (1 + l) in
              if Nat.ltb (length rem) k then None else Some (firstn k rem, skipn k rem)
  end.

Fixpoint last_by_walk (fuel : nat) (rem : bytes) (prev : option bytes) : outcome bytes :=
  match fuel with
  | O => OutOfFuel
  | S f =>
      match rem with
      | [] => match prev with Some p => Ok p | None => Panic PC_UNCHECKED end
      | _ => match next_label rem with
             | Some (lab, rest) => last_by_walk f rest (Some lab)
             | None => Panic PC_UNCHECKED
             end
      end
  end.

(* last_label: candidates are reverse indexes i < 64 with name[len-1-i] = i *)
Fixpoint candidates (revl : bytes) (i : N) (k : nat) : list N :=
  match k, revl with
  | S k', b :: t => (if b =? i then [b] else []) ++ candidates t (i + 1) k'
  | _, _ => []
  end.

Definition last_label (name : bytes) : outcome bytes :=
  match candidates (rev name) 0 64 with
  | [] => Panic PC_UNREACHABLE
  | [l] => Ok (skipn (length name - N.to_nat l - 1) name)
  | _ => last_by_walk (S (length name)) name None
  end.

(* ---- compressor state ---- *)
Record cstate := mkC { cs_use : list N; cs_pos : list N; cs_len : list N; cs_par : list N; cs_hash : list N }.
Definition zeros32 : list N := repeat 0 32.
Definition cs_new : cstate := mkC zeros32 zeros32 zeros32 zeros32 zeros32.

Fixpoint set_nth (l : list N) (i : nat) (v : N) : list N :=
  match l, i with
  | [], _ => []
  | _ :: t, O => v :: t
  | x :: t, S i' => x :: set_nth t i' v
  end.

(* (0..32).min_by_key(last_use): the FIRST minimum *)
Fixpoint argmin (l : list N) (i : nat) (best : nat) (bv : N) : nat :=
  match l with
  | [] => best
  | x :: t => if x <? bv then argmin t (S i) i x else argmin t (S i) best bv
  end.
Definition first_min (l : list N) : nat :=
  match l with [] => O | x :: t => argmin t 1 O x end.

(* first mismatch, scanning both from the end, comparing lower-cased octets *)
Fixpoint mismatch_pos (a b : bytes) (k : N) : option N :=
  match a, b with
  | x :: a', y :: b' => if lower x =? lower y then mismatch_pos a' b' (k + 1) else Some k
  | _, _ => None
  end.

(* walk the labels of name until what remains is no longer than suffix_len *)
Fixpoint walk_to (fuel : nat) (prev rem : bytes) (sl : N) : outcome (bytes * bytes) :=
  match fuel with
  | O => OutOfFuel
  | S f =>
      if sl <? len rem then
        match next_label rem with
        | Some (lab, rest) => walk_to f lab rest sl
        | None => Panic PC_UNCHECKED
        end
      else Ok (prev, rem)
  end.

Inductive lk := LkNone | LkHit (i : N) (rest : bytes) (h : N) (pos : N) | LkPanic (site : N).

Definition slice_opt (c : bytes) (a n : N) : option bytes :=
  if len c <? a + n then None else Some (firstn (N.to_nat n) (skipn (N.to_nat a) c)).

Fixpoint lookup_from (k : nat) (i : nat) (st : cstate) (c name : bytes) (parent : N)
         (poff : option N) (hash : N) : lk :=
  match k with
  | O => LkNone
  | S k' =>
      let next := lookup_from k' (S i) st c name parent poff hash in
      if negb (nth i (cs_hash st) 0 =? hash) || negb (nth i (cs_par st) 0 =? parent) then next
      else
        let pos := nth i (cs_pos st) 0 in
        let ln := nth i (cs_len st) 0 in
        if ln =? 0 then (if cmp_skips_unused then next else LkPanic PC_ASSERT_LEN) else
        match slice_opt c pos ln with
        | None => LkPanic PC_CONTENTS
        | Some entry =>
            let attach_ok :=
              if cmp_checks_attach then
                match poff with
                | None => true
                | Some o =>
                    let v := (o + cmp_attach_add) mod 65536 in
                    match slice_opt c (pos + ln) 2 with
                    | Some [hi; lo] => (hi =? v / 256) && (lo =? v mod 256)
                    | _ => false
                    end
                end
              else true in
            if negb attach_ok then next else
            let aligned (sl : N) : lk :=
              match next_label name with
              | None => LkPanic PC_UNCHECKED
              | Some (first, rem) =>
                  match walk_to (S (length name)) first rem sl with
                  | Ok (prev, rem') =>
                      let sl' := len rem' in
                      if sl' =? 0 then next
                      else LkHit (N.of_nat i) (firstn (length name - length rem') name)
                                 (hash_label prev) (pos + ln - sl')
                  | Panic s => LkPanic s
                  | _ => LkPanic PC_UNCHECKED
                  end
              end in
            match mismatch_pos (rev name) (rev entry) 0 with
            | Some sl => aligned sl
            | None =>
                if len entry <? len name then
                  if cmp_aligns_suffix then aligned (len entry)
                  else
                    let rest := firstn (length name - length entry) name in
                    match last_label rest with
                    | Ok lab => LkHit (N.of_nat i) rest (hash_label lab) pos
                    | Panic s => LkPanic s
                    | _ => LkPanic PC_UNCHECKED
                    end
                else LkHit (N.of_nat i) [] 0 (pos + ln - len name)
            end
        end
  end.

Fixpoint compress_loop (fuel : nat) (st : cstate) (c name : bytes) (parent : N)
         (poff : option N) (hash : N) : outcome (cstate * bytes * N * option N * N) :=
  match fuel with
  | O => OutOfFuel
  | S f =>
      match name with
      | [] => Ok (st, name, parent, poff, hash)
      | _ =>
          match lookup_from 32 0 st c name parent poff hash with
          | LkPanic s => Panic s
          | LkNone => Ok (st, name, parent, poff, hash)
          | LkHit i rest h pos =>
              if cn_range_check && cmp_ge cn_range_ge (pos + cn_range_add) cn_range_bound
              then Ok (st, name, parent, poff, hash)
              else
                let use_pos := N.max (len c + len rest) cn_use_floor in
                let st' := if cmp_lt cn_use_strict use_pos cn_use_bound
                           then mkC (set_nth (cs_use st) (N.to_nat i) use_pos) (cs_pos st) (cs_len st) (cs_par st) (cs_hash st)
                           else st in
                compress_loop f st' c rest i (Some pos) h
          end
      end
  end.

(* compress_name: (uncompressed prefix, offset) or None, and the new state *)
Definition compress_name (st : cstate) (c wire : bytes) : outcome (option (bytes * N) * cstate) :=
  let name := firstn (length wire - 1) wire in
  match name with
  | [] => Ok (None, st)
  | _ =>
      do lab <- last_label name;
      do r <- compress_loop (S (length name)) st c name cn_no_parent None (hash_label lab);
      let '(st1, name', parent, poff, hash) := r in
      let st2 :=
        match name' with
        | [] => st1
        | _ =>
            if cmp_lt cn_reg_strict (len c + cn_reg_add) cn_reg_bound then
              let idx := first_min (cs_use st1) in
              mkC (set_nth (cs_use st1) idx (len c mod 65536)) (set_nth (cs_pos st1) idx (len c mod 65536))
                  (set_nth (cs_len st1) idx (len name' mod 256)) (set_nth (cs_par st1) idx parent)
                  (set_nth (cs_hash st1) idx hash)
            else st1
        end in
      Ok (match poff with Some o => Some (name', o) | None => None end, st2)
  end.

(* Name::build_in_message into a buffer that is large enough: the octets written *)
Definition build_name (st : cstate) (c wire : bytes) : outcome (bytes * cstate) :=
  do r <- compress_name st c wire;
  let '(res, st') := r in
  match res with
  | Some (rest, addr) =>
      let v := addr + bim_ptr_add in
      if 65535 <? v then Panic PC_ADD_OVERFLOW
      else Ok (rest ++ [v / 256; v mod 256], st')
  | None => Ok (wire, st')
  end.

Fixpoint build_names (st : cstate) (c : bytes) (names : list bytes) : outcome bytes :=
  match names with
  | [] => Ok c
  | w :: t => do r <- build_name st c w; let '(bs, st') := r in build_names st' (c ++ bs) t
  end.

Definition c19_build (base : N) (names : list bytes) : outcome bytes :=
  build_names cs_new (repeat 0 (N.to_nat base)) names.

(* ================= the reversed-name path =================
   compress_revname / lookup_entry_for_revname and RevName::build_in_message.
   A RevName is the root label followed by the labels last-to-first. *)
Definition ends_with_ci (entry lab : bytes) : bool :=
  (len lab <=? len entry) && eq_ci (skipn (length entry - length lab) entry) lab.

(* the `loop` after the first label: advance over the labels that match the end of entry *)
Fixpoint rev_match (fuel : nat) (rem entry : bytes) : bytes * bytes :=
  match fuel with
  | O => (rem, entry)
  | S f =>
      match next_label rem with
      | None => (rem, entry)
      | Some (lab, rem') =>
          if ends_with_ci entry lab then rev_match f rem' (firstn (length entry - length lab) entry)
          else (rem, entry)
      end
  end.

Inductive lkr := LrNone | LrHit (i : N) (rest : bytes) (pos : N) | LrPanic (site : N).

Fixpoint rev_lookup_from (k : nat) (i : nat) (st : cstate) (c name : bytes) (parent : N)
         (poff : option N) (first rem : bytes) (hash : N) : lkr :=
  match k with
  | O => LrNone
  | S k' =>
      let next := rev_lookup_from k' (S i) st c name parent poff first rem hash in
      if negb (nth i (cs_hash st) 0 =? hash) || negb (nth i (cs_par st) 0 =? parent) then next
      else
        let pos := nth i (cs_pos st) 0 in
        let ln := nth i (cs_len st) 0 in
        if ln =? 0 then (if cmp_skips_unused then next else LrPanic PC_ASSERT_LEN) else
        match slice_opt c pos ln with
        | None => LrPanic PC_CONTENTS
        | Some entry =>
            let attach_ok :=
              if cmp_checks_attach then
                match poff with
                | None => true
                | Some o =>
                    let v := (o + cmp_attach_add) mod 65536 in
                    match slice_opt c (pos + ln) 2 with
                    | Some [hi; lo] => (hi =? v / 256) && (lo =? v mod 256)
                    | _ => false
                    end
                end
              else true in
            if negb attach_ok then next else
            if negb (ends_with_ci entry first) then next else
            let entry1 := firstn (length entry - length first) entry in
            let '(rest, entry2) := rev_match (S (length rem)) rem entry1 in
            LrHit (N.of_nat i) rest (pos + len entry2)
        end
  end.

Definition rev_lookup (st : cstate) (c name : bytes) (parent : N) (poff : option N) : lkr :=
  match next_label name with
  | None => LrPanic PC_UNCHECKED
  | Some (first, rem) => rev_lookup_from 32 0 st c name parent poff first rem (hash_label first)
  end.

Fixpoint rev_compress_loop (fuel : nat) (st : cstate) (c name : bytes) (parent : N)
         (poff : option N) : outcome (cstate * bytes * N * option N) :=
  match fuel with
  | O => OutOfFuel
  | S f =>
      match name with
      | [] => Ok (st, name, parent, poff)
      | _ =>
          match rev_lookup st c name parent poff with
          | LrPanic s => Panic s
          | LrNone => Ok (st, name, parent, poff)
          | LrHit i rest pos =>
              if cr_range_check && cmp_ge cr_range_ge (pos + cr_range_add) cr_range_bound
              then Ok (st, name, parent, poff)
              else
                let use_pos := N.max (len c + len rest) cr_use_floor in
                let st' := if cmp_lt cr_use_strict use_pos cr_use_bound
                           then mkC (set_nth (cs_use st) (N.to_nat i) use_pos) (cs_pos st) (cs_len st) (cs_par st) (cs_hash st)
                           else st in
                rev_compress_loop f st' c rest i (Some pos)
          end
      end
  end.

(* rname: the RevName octets (root first) *)
Definition compress_revname (st : cstate) (c rname : bytes) : outcome (option (bytes * N) * cstate) :=
  let name := skipn 1 rname in
  match name with
  | [] => Ok (None, st)
  | _ =>
      do r <- rev_compress_loop (S (length name)) st c name cr_no_parent None;
      let '(st1, name', parent, poff) := r in
      do st2 <-
        match name' with
        | [] => Ok st1
        | _ =>
            if cmp_lt cr_reg_strict (len c + cr_reg_add) cr_reg_bound then
              match next_label name' with
              | None => Panic PC_UNCHECKED
              | Some (first, _) =>
                  let idx := first_min (cs_use st1) in
                  Ok (mkC (set_nth (cs_use st1) idx (len c mod 65536)) (set_nth (cs_pos st1) idx (len c mod 65536))
                          (set_nth (cs_len st1) idx (len name' mod 256)) (set_nth (cs_par st1) idx parent)
                          (set_nth (cs_hash st1) idx (hash_label first)))
              end
            else Ok st1
        end;
      Ok (match poff with Some o => Some (name', o) | None => None end, st2)
  end.

(* the labels of a label sequence, in the order they appear *)
Fixpoint split_labels (fuel : nat) (rem : bytes) : list bytes :=
  match fuel with
  | O => []
  | S f => match next_label rem with Some (lab, rem') => lab :: split_labels f rem' | None => [] end
  end.
Definition unreverse (rem : bytes) : bytes := concat (rev (split_labels (S (length rem)) rem)).

(* forward wire -> RevName octets *)
Definition to_rev (wire : bytes) : bytes := 0 :: unreverse (firstn (length wire - 1) wire).

(* RevName::build_in_message into a buffer that is large enough *)
Definition build_revname (st : cstate) (c rname : bytes) : outcome (bytes * cstate) :=
  do r <- compress_revname st c rname;
  let '(res, st') := r in
  match res with
  | Some (rest, addr) =>
      let v := addr + bim_ptr_add in
      if 65535 <? v then Panic PC_ADD_OVERFLOW
      else Ok (unreverse rest ++ [v / 256; v mod 256], st')
  | None => Ok (unreverse (skipn 1 rname) ++ [0], st')
  end.

Fixpoint build_revnames (st : cstate) (c : bytes) (names : list bytes) : outcome bytes :=
  match names with
  | [] => Ok c
  | w :: t => do r <- build_revname st c (to_rev w); let '(bs, st') := r in build_revnames st' (c ++ bs) t
  end.

Definition c19_build_rev (base : N) (names : list bytes) : outcome bytes :=
  build_revnames cs_new (repeat 0 (N.to_nat base)) names.
