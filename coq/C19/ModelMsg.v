(* C19 model, part 5: whole-message iteration of the new API
     new/base/parse/message.rs  MessageParser::{new, next}
     new/base/message.rs        Message (12-octet header + contents), section counts
   Records are read with their RDATA left opaque (the typed RecordData parse of
   the real iterator cannot fail for types it does not know; T2 uses those and
   the OPT record, which the iterator reads as an EdnsRecord when the item
   starts with `0 0 41` in the additional section). *)
From Coq Require Import NArith List Bool.
From DV Require Import Base.Outcome Base.Bytes C19.Gen C19.Model C19.ModelEdns.
Import ListNotations.
Local Open Scope N_scope.

Inductive mitem :=
| MQ (w : bytes) (ty cl : N)
| MR (sec : N) (w : bytes) (ty cl ttl rdlen : N)
| ME (e : edns).

Definition starts_with (b pre : bytes) : bool :=
  (Nat.leb (length pre) (length b)) && forallb (fun p => fst p =? snd p) (combine pre b).

(* one item of section `sec` at contents offset `off`: the item and the offset behind it *)
Definition mp_item (c : bytes) (sec : N) (off : N) : outcome (mitem * N) :=
  if sec =? 0 then
    do r <- new_question c off;
    let '(w, ty, cl, e) := r in Ok (MQ w ty cl, e)
  else if (sec =? mp_edns_section) && starts_with (skipn (N.to_nat off) c) edns_prefix then
    do r <- nedns_split (skipn (N.to_nat off) c);
    Ok (ME (fst r), len c - len (snd r))
  else
    do r <- new_record c off;
    let '(w, ty, cl, ttl, d, e) := r in
    (* the typed RecordData parse: opaque for unknown types; an OPT record that is
       not read as an EdnsRecord must still hold well-framed options *)
    if (ty =? 41) && negb (nopt_ok (firstn (N.to_nat (e - d)) (skipn (N.to_nat d) c))) then Err E_PARSE
    else Ok (MR sec w ty cl ttl (e - d), e).

(* `count` items of one section; stops at the first error (the iterator is fused) *)
Fixpoint mp_section (count : nat) (c : bytes) (sec : N) (off : N) (acc : list mitem)
  : outcome (list mitem * N * bool) :=
  match count with
  | O => Ok (acc, off, true)
  | S n =>
      match mp_item c sec off with
      | Ok (it, off') => mp_section n c sec off' (it :: acc)
      | Err _ => Ok (acc, off, false)
      | Panic s => Panic s
      | OutOfFuel => OutOfFuel
      end
  end.

Fixpoint mp_sections (secs : list (N * N)) (c : bytes) (off : N) (acc : list mitem)
  : outcome (list mitem * N * bool) :=
  match secs with
  | [] => Ok (rev acc, off, true)
  | (sec, cnt) :: t =>
      do r <- mp_section (N.to_nat cnt) c sec off acc;
      let '(acc', off', ok) := r in
      if ok then mp_sections t c off' acc' else Ok (rev acc', off', false)
  end.

Definition u16_of (m : bytes) (i : nat) : N := nth i m 0 * 256 + nth (S i) m 0.

(* MessageParser::new(bytes) and iteration to the end: None = fewer than 12 octets *)
Definition mp_run (m : bytes) : option (outcome (list mitem * N * bool)) :=
  if Nat.ltb (length m) 12 then None
  else
    let c := skipn 12 m in
    Some (mp_sections [(0, u16_of m 4); (1, u16_of m 6); (2, u16_of m 8); (3, u16_of m 10)] c 0 []).

Definition c19_mparse (m : bytes) := mp_run m.
