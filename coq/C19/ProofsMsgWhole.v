(* C19 proofs, part 15: the whole message.  MessageParser (mp_run) reads a
   message to completion iff C01's model of the old codec does: the question
   section iterated clean, answer() / next_section() / next_section() reach
   the three record sections and each of them iterates clean.  Premises: no
   pointer of a known class, no `0 0 41` item, no OPT record. *)
From Coq Require Import NArith List Bool Lia ZArith.
From Coq Require Import ZifyN ZifyBool ZifyNat.
From DV Require Import Base.Outcome Base.Bytes Base.Names Base.PName C19.Gen C19.Model C19.ModelEdns C19.ModelMsg
  C19.ProofsOld C19.ProofsNew C19.ProofsAgree C19.ProofsItems C19.ProofsMsg C19.ProofsMsgIff
  C01.Gen C01.Model C01.Model3 C01.Proofs2 C01.Proofs3.
Import ListNotations.
Local Open Scope N_scope.
Ltac Zify.zify_post_hook ::= Z.div_mod_to_equations.

(* what record_parse accepts record_skip accepts, item after item *)
Lemma skip_follows m n : forall pos,
  let '(l, p, ok) := iter_items (fun q => record_parse m q (mlen m)) rr_end n pos in
  ok = true -> exists l2, iter_items (fun q => record_skip m q (mlen m)) (fun e => e) n pos = (l2, p, true).
Proof.
  induction n as [|n IH]; intros pos; cbn [iter_items]; [intros _; eauto|].
  destruct (record_parse m pos (mlen m)) as [r| | |] eqn:R; try (intros Q; discriminate Q).
  rewrite (parse_accepts_skip_accepts _ _ _ _ R).
  specialize (IH (rr_end r)).
  destruct (iter_items (fun q => record_parse m q (mlen m)) rr_end n (rr_end r)) as [[l p] ok].
  intros Q. destruct (IH Q) as (l2 & E). rewrite E. eauto.
Qed.

Lemma count_at_u16 (m : bytes) (i : nat) : (S i < length m)%nat ->
  count_at m (N.of_nat i) = Ok (u16_of m i).
Proof.
  intros H. unfold count_at, get, u16_of. rewrite Nat2N.id.
  replace (N.to_nat (N.of_nat i + 1)) with (S i) by lia.
  rewrite (nth_error_nth' m 0) by lia. rewrite (nth_error_nth' m 0) by lia. reflexivity.
Qed.

(* the old codec reads the whole message: questions clean, answer() and the two
   next_section() succeed, every record section iterates clean *)
Definition old_msg_ok (m : bytes) : Prop :=
  exists qs trq qs' a tra a' nsec trn ns' asec tra2 ar',
    question_section m = Ok qs /\ drain (q_next m) (sec_fuel qs) qs [] = Ok (trq, qs') /\ has_err trq = false /\
    q_to_answer m qs = Ok a /\ drain (r_next m) (sec_fuel a) a [] = Ok (tra, a') /\ has_err tra = false /\
    r_next_section m a = Ok (Some nsec) /\ drain (r_next m) (sec_fuel nsec) nsec [] = Ok (trn, ns') /\ has_err trn = false /\
    r_next_section m nsec = Ok (Some asec) /\ drain (r_next m) (sec_fuel asec) asec [] = Ok (tra2, ar') /\ has_err tra2 = false.

Section WHOLE.
Variables (h c : bytes).
Hypothesis Hh : length h = 12%nat.
Hypothesis Hwf : wf_bytes c.
Let m := h ++ c.
Hypothesis Hk : forall p, kclass m p = KNone.
Hypothesis Hno_edns : forall off, starts_with (skipn (N.to_nat off) c) edns_prefix = false.
Hypothesis Hno_opt : forall pos r, record_parse m pos (mlen m) = Ok r -> rr_type r <> 41.

Lemma skip_total p : no_panic (record_skip m p (mlen m)).
Proof. eapply sat_no_panic. apply record_skip_sat. lia. Qed.

(* one question section: C01's iteration and MessageParser's, any accumulator *)
Lemma qsec_all n off acc :
  let s := mkSect (12 + off) (N.of_nat n) None 0 in
  exists tr s' acc' off' ok,
    drain (q_next m) (sec_fuel s) s [] = Ok (tr, s') /\
    mp_section n c 0 off acc = Ok (acc', off', ok) /\
    (ok = true <-> has_err tr = false) /\
    (ok = true -> s_err s' = None /\ s_pos s' = 12 + off').
Proof.
  cbv zeta.
  destruct (drain_count (fun pos => question_parse m pos (mlen m)) q_end ltac:(intros p0; eapply old_q_total; eassumption) n (12 + off) 0 (sec_fuel (mkSect (12 + off) (N.of_nat n) None 0)) [])
    as (tr & s' & D & HP).
  { unfold sec_fuel. cbn [s_cnt]. lia. }
  destruct (section_iff h c Hh Hwf Hk Hno_edns Hno_opt n 0 off acc) as (acc' & off' & ok & E & HS).
  pose proof (iter_items_ends (fun pos => question_parse m pos (mlen m)) q_end (old_parse h c 0) ltac:(intros; reflexivity) n (12 + off)) as HI.
  destruct (iter_items (fun pos => question_parse m pos (mlen m)) q_end n (12 + off)) as [[l p] okq].
  destruct (iter_items (old_parse h c 0) (fun e => e) n (12 + off)) as [[l2 p2] ok2].
  destruct HI as (L1 & L2 & L3). destruct HS as (S1 & S2 & S3). destruct HP as (P1 & P2).
  exists tr, s', acc', off', ok. split; [exact D|]. split; [exact E|]. subst.
  destruct ok2.
  - destruct (P1 eq_refl) as (A1 & A2 & A3 & A4). split; [tauto|]. intros _.
    split; [exact A1|]. rewrite A2. apply S3. reflexivity.
  - destruct (P2 eq_refl) as (A1 & A2). split; [split; intros Q; [discriminate Q|congruence]|]. intros Q; discriminate Q.
Qed.

(* one record section: iteration with parse, the re-walk with skip that
   next_section() does, and MessageParser's loop *)
Lemma rsec_all sec n off acc : sec <> 0 ->
  let s := mkSect (12 + off) (N.of_nat n) None sec in
  exists tr s' tr2 s2 acc' off' ok,
    drain (r_next m) (sec_fuel s) s [] = Ok (tr, s') /\
    drain (r_skip_next m) (sec_fuel s) s [] = Ok (tr2, s2) /\
    mp_section n c sec off acc = Ok (acc', off', ok) /\
    (ok = true <-> has_err tr = false) /\
    (ok = true -> s_err s' = None /\ s_pos s' = 12 + off' /\ s_err s2 = None /\ s_pos s2 = 12 + off').
Proof.
  intros Hs. cbv zeta.
  destruct (drain_count (fun pos => record_parse m pos (mlen m)) rr_end ltac:(intros p0; eapply old_r_total; eassumption) n (12 + off) sec (sec_fuel (mkSect (12 + off) (N.of_nat n) None sec)) [])
    as (tr & s' & D & HP).
  { unfold sec_fuel. cbn [s_cnt]. lia. }
  destruct (drain_count (fun pos => record_skip m pos (mlen m)) (fun e => e) skip_total n (12 + off) sec (sec_fuel (mkSect (12 + off) (N.of_nat n) None sec)) [])
    as (tr2 & s2 & D2 & HP2).
  { unfold sec_fuel. cbn [s_cnt]. lia. }
  destruct (section_iff h c Hh Hwf Hk Hno_edns Hno_opt n sec off acc) as (acc' & off' & ok & E & HS).
  assert (Hold : forall p, old_parse h c sec p = (do a <- record_parse m p (mlen m); Ok (rr_end a))).
  { intros p. unfold old_parse. destruct (N.eqb_spec sec 0); [contradiction|reflexivity]. }
  pose proof (iter_items_ends (fun pos => record_parse m pos (mlen m)) rr_end (old_parse h c sec) Hold n (12 + off)) as HI.
  pose proof (skip_follows m n (12 + off)) as HF.
  destruct (iter_items (fun pos => record_parse m pos (mlen m)) rr_end n (12 + off)) as [[l p] okq].
  destruct (iter_items (old_parse h c sec) (fun e => e) n (12 + off)) as [[l2 p2] ok2].
  destruct HI as (L1 & L2 & L3). destruct HS as (S1 & S2 & S3). destruct HP as (P1 & P2).
  exists tr, s', tr2, s2, acc', off', ok. split; [exact D|]. split; [exact D2|]. split; [exact E|]. subst.
  destruct ok2.
  - destruct (P1 eq_refl) as (A1 & A2 & A3 & A4). split; [tauto|]. intros _.
    destruct (HF eq_refl) as (l3 & E3). rewrite E3 in HP2. destruct HP2 as [Q1 _]. destruct (Q1 eq_refl) as (B1 & B2 & _).
    split; [exact A1|]. split; [rewrite A2; apply S3; reflexivity|]. split; [exact B1|]. rewrite B2. apply S3. reflexivity.
  - destruct (P2 eq_refl) as (A1 & A2). split; [split; intros Q; [discriminate Q|congruence]|]. intros Q; discriminate Q.
Qed.

Lemma len_m : (12 <= length m)%nat.
Proof. unfold m. rewrite app_length. lia. Qed.

Lemma counts_m : count_at m qd_off = Ok (u16_of m 4) /\ count_at m an_off = Ok (u16_of m 6) /\
  count_at m ns_off = Ok (u16_of m 8) /\ count_at m ar_off = Ok (u16_of m 10).
Proof.
  pose proof len_m. repeat split.
  - apply (count_at_u16 m 4). lia.
  - apply (count_at_u16 m 6). lia.
  - apply (count_at_u16 m 8). lia.
  - apply (count_at_u16 m 10). lia.
Qed.

Lemma skipn_m : skipn 12 m = c.
Proof. unfold m. rewrite <- Hh. apply (drop_app_length h c). Qed.

(* all four sections at once: both sides, chained *)
Lemma chain :
  exists trq qs' acc1 off1 ok1,
    let qs := mkSect 12 (u16_of m 4) None 0 in
    drain (q_next m) (sec_fuel qs) qs [] = Ok (trq, qs') /\
    mp_section (N.to_nat (u16_of m 4)) c 0 0 [] = Ok (acc1, off1, ok1) /\
    (ok1 = true <-> has_err trq = false) /\
    (ok1 = true -> s_err qs' = None /\ s_pos qs' = 12 + off1 /\
      exists tra a' ta2 a2 acc2 off2 ok2,
        let a := mkSect (12 + off1) (u16_of m 6) None 1 in
        drain (r_next m) (sec_fuel a) a [] = Ok (tra, a') /\ drain (r_skip_next m) (sec_fuel a) a [] = Ok (ta2, a2) /\
        mp_section (N.to_nat (u16_of m 6)) c 1 off1 acc1 = Ok (acc2, off2, ok2) /\
        (ok2 = true <-> has_err tra = false) /\
        (ok2 = true -> s_err a2 = None /\ s_pos a2 = 12 + off2 /\
          exists trn n' tn2 n2 acc3 off3 ok3,
            let nsec := mkSect (12 + off2) (u16_of m 8) None 2 in
            drain (r_next m) (sec_fuel nsec) nsec [] = Ok (trn, n') /\ drain (r_skip_next m) (sec_fuel nsec) nsec [] = Ok (tn2, n2) /\
            mp_section (N.to_nat (u16_of m 8)) c 2 off2 acc2 = Ok (acc3, off3, ok3) /\
            (ok3 = true <-> has_err trn = false) /\
            (ok3 = true -> s_err n2 = None /\ s_pos n2 = 12 + off3 /\
              exists trr r' acc4 off4 ok4,
                let asec := mkSect (12 + off3) (u16_of m 10) None 3 in
                drain (r_next m) (sec_fuel asec) asec [] = Ok (trr, r') /\
                mp_section (N.to_nat (u16_of m 10)) c 3 off3 acc3 = Ok (acc4, off4, ok4) /\
                (ok4 = true <-> has_err trr = false)))).
Proof.
  destruct (qsec_all (N.to_nat (u16_of m 4)) 0 []) as (trq & qs' & acc1 & off1 & ok1 & D1 & E1 & I1 & C1).
  rewrite N2Nat.id in D1. replace (12 + 0) with 12 in D1 by lia.
  exists trq, qs', acc1, off1, ok1. cbv zeta. split; [exact D1|]. split; [exact E1|]. split; [exact I1|].
  intros Q1. destruct (C1 Q1) as (Z1 & Z2). split; [exact Z1|]. split; [exact Z2|].
  destruct (rsec_all 1 (N.to_nat (u16_of m 6)) off1 acc1 ltac:(lia)) as (tra & a' & ta2 & a2 & acc2 & off2 & ok2 & D2 & K2 & E2 & I2 & C2).
  rewrite N2Nat.id in D2, K2.
  exists tra, a', ta2, a2, acc2, off2, ok2. split; [exact D2|]. split; [exact K2|]. split; [exact E2|]. split; [exact I2|].
  intros Q2. destruct (C2 Q2) as (_ & _ & Y1 & Y2). split; [exact Y1|]. split; [exact Y2|].
  destruct (rsec_all 2 (N.to_nat (u16_of m 8)) off2 acc2 ltac:(lia)) as (trn & n' & tn2 & n2 & acc3 & off3 & ok3 & D3 & K3 & E3 & I3 & C3).
  rewrite N2Nat.id in D3, K3.
  exists trn, n', tn2, n2, acc3, off3, ok3. split; [exact D3|]. split; [exact K3|]. split; [exact E3|]. split; [exact I3|].
  intros Q3. destruct (C3 Q3) as (_ & _ & X1 & X2). split; [exact X1|]. split; [exact X2|].
  destruct (rsec_all 3 (N.to_nat (u16_of m 10)) off3 acc3 ltac:(lia)) as (trr & r' & tr2 & r2 & acc4 & off4 & ok4 & D4 & _ & E4 & I4 & _).
  rewrite N2Nat.id in D4.
  exists trr, r', acc4, off4, ok4. auto.
Qed.

Lemma question_section_m : question_section m = Ok (mkSect 12 (u16_of m 4) None 0).
Proof. unfold question_section. destruct counts_m as (-> & _). reflexivity. Qed.

Lemma record_section_m pos k : k = 1 \/ k = 2 \/ k = 3 ->
  record_section m pos k = Ok (mkSect pos (u16_of m (if k =? 1 then 6 else if k =? 2 then 8 else 10)) None k).
Proof.
  destruct counts_m as (_ & C1 & C2 & C3).
  intros [ -> | [ -> | -> ] ]; unfold record_section, kind_off; cbn [N.eqb Pos.eqb]; rewrite ?C1, ?C2, ?C3; reflexivity.
Qed.

Theorem whole_message_iff :
  (exists items off, mp_run m = Some (Ok (items, off, true))) <-> old_msg_ok m.
Proof.
  destruct chain as (trq & qs' & acc1 & off1 & ok1 & D1 & E1 & I1 & C1). cbv zeta in D1.
  assert (Hrun : mp_run m = Some (mp_sections [(0, u16_of m 4); (1, u16_of m 6); (2, u16_of m 8); (3, u16_of m 10)] c 0 [])).
  { unfold mp_run. pose proof len_m. destruct (Nat.ltb_spec (length m) 12); [lia|]. rewrite skipn_m. reflexivity. }
  rewrite Hrun. cbn [mp_sections]. rewrite E1. cbn [bind].
  split.
  - intros (items & off & H). apply some_inj in H.
    destruct ok1; [|discriminate H].
    destruct (C1 eq_refl) as (Z1 & Z2 & tra & a' & ta2 & a2 & acc2 & off2 & ok2 & D2 & K2 & E2 & I2 & C2). cbv zeta in D2, K2.
    rewrite E2 in H. cbn [bind] in H. destruct ok2; [|discriminate H].
    destruct (C2 eq_refl) as (Y1 & Y2 & trn & n' & tn2 & n2 & acc3 & off3 & ok3 & D3 & K3 & E3 & I3 & C3). cbv zeta in D3, K3.
    rewrite E3 in H. cbn [bind] in H. destruct ok3; [|discriminate H].
    destruct (C3 eq_refl) as (X1 & X2 & trr & r' & acc4 & off4 & ok4 & D4 & E4 & I4). cbv zeta in D4.
    rewrite E4 in H. cbn [bind] in H. destruct ok4; [|discriminate H].
    exists (mkSect 12 (u16_of m 4) None 0), trq, qs', (mkSect (12 + off1) (u16_of m 6) None 1), tra, a',
           (mkSect (12 + off2) (u16_of m 8) None 2), trn, n', (mkSect (12 + off3) (u16_of m 10) None 3), trr, r'.
    split; [apply question_section_m|]. split; [exact D1|]. split; [apply I1; reflexivity|].
    split. { unfold q_to_answer. rewrite D1. cbn [bind snd]. rewrite Z1, Z2. apply (record_section_m _ 1). auto. }
    split; [exact D2|]. split; [apply I2; reflexivity|].
    split. { unfold r_next_section. cbn [s_kind N.leb N.compare Pos.compare Pos.compare_cont]. rewrite K2. cbn [bind snd]. rewrite Y1, Y2.
             change (1 + 1) with 2. rewrite (record_section_m _ 2) by auto. reflexivity. }
    split; [exact D3|]. split; [apply I3; reflexivity|].
    split. { unfold r_next_section. cbn [s_kind N.leb N.compare Pos.compare Pos.compare_cont]. rewrite K3. cbn [bind snd]. rewrite X1, X2.
             change (2 + 1) with 3. rewrite (record_section_m _ 3) by auto. reflexivity. }
    split; [exact D4|]. apply I4. reflexivity.
  - intros (qs & trq0 & qs0 & a & tra0 & a0 & nsec & trn0 & ns0 & asec & trr0 & ar0 &
            G1 & G2 & G3 & G4 & G5 & G6 & G7 & G8 & G9 & G10 & G11 & G12).
    rewrite question_section_m in G1. injection G1 as <-. rewrite D1 in G2. injection G2 as <- <-.
    assert (Q1 : ok1 = true) by (apply I1; exact G3). subst ok1.
    destruct (C1 eq_refl) as (Z1 & Z2 & tra & a' & ta2 & a2 & acc2 & off2 & ok2 & D2 & K2 & E2 & I2 & C2). cbv zeta in D2, K2.
    unfold q_to_answer in G4. rewrite D1 in G4. cbn [bind snd] in G4. rewrite Z1, Z2, (record_section_m _ 1) in G4 by auto.
    change (1 =? 1) with true in G4. cbv iota in G4. assert (Ea : a = mkSect (12 + off1) (u16_of m 6) None 1) by congruence. subst a. rewrite D2 in G5. injection G5 as <- <-.
    assert (Q2 : ok2 = true) by (apply I2; exact G6). subst ok2.
    destruct (C2 eq_refl) as (Y1 & Y2 & trn & n' & tn2 & n2 & acc3 & off3 & ok3 & D3 & K3 & E3 & I3 & C3). cbv zeta in D3, K3.
    unfold r_next_section in G7. cbn [s_kind N.leb N.compare Pos.compare Pos.compare_cont N.eqb Pos.eqb] in G7. rewrite K2 in G7. cbn [bind snd] in G7.
    rewrite Y1, Y2 in G7. change (1 + 1) with 2 in G7. rewrite (record_section_m _ 2) in G7 by auto.
    change (2 =? 1) with false in G7. change (2 =? 2) with true in G7. cbn [bind] in G7. assert (En : nsec = mkSect (12 + off2) (u16_of m 8) None 2) by congruence. subst nsec. rewrite D3 in G8. injection G8 as <- <-.
    assert (Q3 : ok3 = true) by (apply I3; exact G9). subst ok3.
    destruct (C3 eq_refl) as (X1 & X2 & trr & r' & acc4 & off4 & ok4 & D4 & E4 & I4). cbv zeta in D4.
    unfold r_next_section in G10. cbn [s_kind N.leb N.compare Pos.compare Pos.compare_cont N.eqb Pos.eqb] in G10. rewrite K3 in G10. cbn [bind snd] in G10.
    rewrite X1, X2 in G10. change (2 + 1) with 3 in G10. rewrite (record_section_m _ 3) in G10 by auto.
    change (3 =? 1) with false in G10. change (3 =? 2) with false in G10. cbn [bind] in G10. assert (Er : asec = mkSect (12 + off3) (u16_of m 10) None 3) by congruence. subst asec. rewrite D4 in G11. injection G11 as <- <-.
    assert (Q4 : ok4 = true) by (apply I4; exact G12). subst ok4.
    rewrite E2. cbn [bind]. rewrite E3. cbn [bind]. rewrite E4. cbn [bind]. eauto.
Qed.
End WHOLE.

(* non-vacuity: one question and one answer whose owner is a pointer to the
   question name; both sides of the equivalence hold *)
Example whole_example :
  let m := [0;1;129;128; 0;1; 0;1; 0;0; 0;0] ++ [1;97;0; 0;1;0;1] ++ [192;12; 255;0; 0;1; 0;0;0;5; 0;1; 7] in
  (exists items off, mp_run m = Some (Ok (items, off, true)) /\ length items = 2%nat) /\ old_msg_ok m.
Proof.
  split.
  - eexists. eexists. split; vm_compute; reflexivity.
  - unfold old_msg_ok. do 12 eexists.
    split; [vm_compute; reflexivity|]. split; [vm_compute; reflexivity|]. split; [vm_compute; reflexivity|].
    split; [vm_compute; reflexivity|]. split; [vm_compute; reflexivity|]. split; [vm_compute; reflexivity|].
    split; [vm_compute; reflexivity|]. split; [vm_compute; reflexivity|]. split; [vm_compute; reflexivity|].
    split; [vm_compute; reflexivity|]. split; [vm_compute; reflexivity|]. vm_compute; reflexivity.
Qed.
