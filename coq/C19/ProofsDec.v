(* C19 proofs, part 1: the name decoders. *)
From Coq Require Import NArith List Bool Lia ZArith.
From Coq Require Import ZifyN ZifyBool ZifyNat.
From DV Require Import Base.Outcome Base.Bytes Base.Names Base.PName C19.Gen C19.Model.
Import ListNotations.
Local Open Scope N_scope.
Ltac Zify.zify_post_hook ::= Z.div_mod_to_equations.

(* the T1 literals the proofs below rely on *)
Lemma t1_consts :
  nb_label_bound = 64 /\ nb_label_bound_strict = true /\ nb_short_strict = true /\ nb_short_add = 1 /\
  nb_cap_strict = true /\ nb_cap_slack = 2 /\ nb_cap_total = 255 /\ nb_ptr_tag = 192 /\
  nb_ptr_tag_ge = true /\ nb_ptr_mask = 16383 /\ nb_split_hdr = 12 /\ nb_split_rule_ge = true /\
  nb_parse_hdr = 12 /\ nb_parse_rule_ge = true /\
  old_cap = 255 /\ old_cap_ge = true /\ old_ptr_ge = true /\ old_ptr_back = 2.
Proof. repeat split; reflexivity. Qed.

Definition hdr0 : bytes := [0;0;0;0;0;0;0;0;0;0;0;0].

(* DESIGN section 7 #17 *)
Lemma agree_refuted_own_segment :
  let c := [3;1;122;0;192;13] in
  c19_old (hdr0 ++ c) 12 = Ok ([[1;122;0]; [122]], 18) /\ new_split c 0 = Err E_PARSE /\
  PtrIntoOwnSegment (hdr0 ++ c) 12.
Proof. vm_compute. auto. Qed.

Lemma agree_refuted_header :
  let c := [192;11] in
  c19_old (hdr0 ++ c) 12 = Ok ([], 14) /\ new_split c 0 = Err E_PARSE /\
  PtrIntoHeader (hdr0 ++ c) 12.
Proof. vm_compute. auto. Qed.
