(* C19 proofs, part 2: the NEW reader (NameBuf::split_message_bytes) is total,
   and sound and complete for dpath R_new over m = header ++ contents. *)
From Coq Require Import NArith List Bool Lia ZArith.
From Coq Require Import ZifyN ZifyBool ZifyNat.
From DV Require Import Base.Outcome Base.Bytes Base.Names Base.PName C19.Gen C19.Model C19.ProofsOld.
Import ListNotations.
Local Open Scope N_scope.
Ltac Zify.zify_post_hook ::= Z.div_mod_to_equations.

(* ---- the step equations with the T1 literals substituted ---- *)
Lemma nb_segment_nil f buf : nb_segment (S f) [] buf = Err E_PARSE.
Proof. reflexivity. Qed.

Lemma nb_segment_cons f b rest buf :
  nb_segment (S f) (b :: rest) buf =
    if b =? 0 then do buf' <- nb_append buf [0]; Ok (None, rest, buf')
    else if b <? 64 then
      if len (b :: rest) <? 1 + b then Err E_PARSE
      else if 255 <? len buf then Panic PN_CAP
      else if 255 - len buf <? 2 + b then Err E_PARSE
      else do buf' <- nb_append buf (firstn (N.to_nat (1 + b)) (b :: rest));
           nb_segment f (skipn (N.to_nat (1 + b)) (b :: rest)) buf'
    else match rest with
         | lo :: rest' => if 192 <=? b then Ok (Some (N.land (b * 256 + lo) 16383), rest', buf) else Err E_PARSE
         | [] => Err E_PARSE
         end.
Proof. reflexivity. Qed.

Lemma nb_follow_some f hdr ge c p old_start buf :
  nb_follow (S f) hdr ge c (Some p) old_start buf =
    if p <? hdr then Err E_PARSE else
    if cmp_ge ge (p - hdr) old_start then Err E_PARSE else
    match get_from c (p - hdr) with
    | None => Err E_PARSE
    | Some bs => do r <- nb_segment (S (length bs)) bs buf;
                 let '(ptr', _, buf') := r in nb_follow f hdr ge c ptr' (p - hdr) buf'
    end.
Proof. reflexivity. Qed.

Lemma mask_ptr b c : b < 256 -> c < 256 -> N.land (b * 256 + c) 16383 = ptr_val b c.
Proof.
  intros Hb Hc. change 16383 with (N.ones 14). rewrite N.land_ones. unfold ptr_val.
  change (2 ^ 14) with 16384. lia.
Qed.

(* ---- list facts ---- *)
Lemma skipn_nth_cons {A} (l : list A) k x : nth_error l k = Some x -> skipn k l = x :: skipn (S k) l.
Proof.
  revert k; induction l as [|y l IH]; intros [|k] H; simpl in *; try discriminate.
  - inversion H; reflexivity.
  - apply IH in H. rewrite H. reflexivity.
Qed.

Lemma skipn_nth_nil {A} (l : list A) k : nth_error l k = None -> skipn k l = [].
Proof. intros H. apply nth_error_None in H. apply skipn_all2. exact H. Qed.

Lemma skipn_skipn' {A} (l : list A) a b : skipn a (skipn b l) = skipn (b + a) l.
Proof. revert l; induction b as [|b IH]; intros l; [reflexivity|]. destruct l; [rewrite !skipn_nil; reflexivity|]. cbn [plus skipn]. apply IH. Qed.

Lemma dpath_e_gt R m cur seg nl n e : dpath R m cur seg nl n e -> cur < e.
Proof. induction 1; lia. Qed.

Section NEW.
Variables (h c : bytes).
Hypothesis Hh : length h = 12%nat.
Hypothesis Hwf : wf_bytes c.
Let m := h ++ c.

Lemma mlen_m : mlen m = 12 + len c.
Proof. unfold mlen, m, len. rewrite app_length, Hh. lia. Qed.

Lemma get_m i : get m (12 + i) = nth_error c (N.to_nat i).
Proof.
  unfold get, m. rewrite nth_error_app2 by lia. f_equal. lia.
Qed.

Lemma get_m' p : 12 <= p -> get m p = nth_error c (N.to_nat (p - 12)).
Proof. intros H. replace p with (12 + (p - 12)) at 1 by lia. apply get_m. Qed.

Lemma nth_wf k b : nth_error c k = Some b -> b < 256.
Proof. intros H. apply nth_error_In in H. unfold wf_bytes in Hwf. rewrite Forall_forall in Hwf. auto. Qed.

Lemma slice_m i b : slice m (12 + i + 1) (12 + i + 1 + b) = firstn (N.to_nat b) (skipn (N.to_nat (i + 1)) c).
Proof.
  unfold slice, m. replace (12 + i + 1 + b - (12 + i + 1)) with b by lia.
  rewrite skipn_app. rewrite skipn_all2 by lia. cbn [app]. do 2 f_equal. lia.
Qed.

Lemma get_from_some start : start <= len c -> get_from c start = Some (skipn (N.to_nat start) c).
Proof. intros H. unfold get_from. destruct (N.ltb_spec (len c) start); [lia|reflexivity]. Qed.

Lemma len_skipn k : (k <= length c)%nat -> len (skipn k c) = len c - N.of_nat k.
Proof. intros H. unfold len. rewrite skipn_length. lia. Qed.

(* one label step of nb_segment at offset i of the contents *)
Lemma label_step i b :
  nth_error c (N.to_nat i) = Some b -> i + 1 + b <= len c ->
  firstn (N.to_nat (1 + b)) (skipn (N.to_nat i) c) = wire_label (slice m (12 + i + 1) (12 + i + 1 + b)) /\
  skipn (N.to_nat (1 + b)) (skipn (N.to_nat i) c) = skipn (N.to_nat (i + 1 + b)) c /\
  length (slice m (12 + i + 1) (12 + i + 1 + b)) = N.to_nat b.
Proof.
  intros G Hl. rewrite slice_m.
  assert (Hlen : length (firstn (N.to_nat b) (skipn (N.to_nat (i + 1)) c)) = N.to_nat b).
  { rewrite firstn_length, skipn_length. unfold len in Hl. lia. }
  split; [|split; [|exact Hlen]].
  - unfold wire_label. rewrite Hlen, N2Nat.id.
    rewrite (skipn_nth_cons _ _ _ G). replace (N.to_nat (1 + b)) with (S (N.to_nat b)) by lia.
    cbn [firstn]. do 3 f_equal. lia.
  - rewrite skipn_skipn'. f_equal. lia.
Qed.

Lemma wire_abs_cons' l n : wire_abs (l :: n) = wire_label l ++ wire_abs n.
Proof. unfold wire_abs, wire_rel. cbn [map concat]. rewrite <- app_assoc. reflexivity. Qed.

(* ================= completeness ================= *)
Lemma follow_chain seg cur t : pchain R_new m seg cur t -> 12 <= seg -> seg <= cur ->
  forall b c0, get m cur = Some b -> get m (cur + 1) = Some c0 ->
  forall ffuel buf, (N.to_nat (seg - 12) < ffuel)%nat ->
  exists ffuel', (N.to_nat (t - 12) < ffuel')%nat /\ 12 <= t /\ t < mlen m /\
    nb_follow ffuel 12 true c (Some (N.land (b * 256 + c0) 16383)) (seg - 12) buf =
      (do r <- nb_segment (S (length (skipn (N.to_nat (t - 12)) c))) (skipn (N.to_nat (t - 12)) c) buf;
       let '(p', _, buf') := r in nb_follow ffuel' 12 true c p' (t - 12) buf').
Proof.
  induction 1 as [seg cur b c1 b' G Hb G1 HR G2 Hb'|seg cur b c1 t' G Hb G1 HR PC IH];
    intros Hseg Hsc b0 c0 G0 G01 ffuel buf Hf; rewrite G in G0; rewrite G1 in G01;
    inversion G0; inversion G01; subst b0 c0; destruct HR as [HR1 HR2].
  - pose proof (get_lt _ _ _ G2) as Ht. rewrite mlen_m in Ht.
    rewrite get_m' in G, G1 by lia.
    rewrite (mask_ptr b c1) by eauto using nth_wf.
    destruct ffuel as [|ffuel]; [lia|]. exists ffuel.
    split; [lia|]. split; [lia|]. split; [rewrite mlen_m; lia|].
    rewrite nb_follow_some.
    destruct (N.ltb_spec (ptr_val b c1) 12); [lia|].
    unfold cmp_ge. destruct (N.leb_spec (seg - 12) (ptr_val b c1 - 12)); [lia|].
    rewrite get_from_some by lia. reflexivity.
  - destruct (pchain_first _ _ _ _ _ PC) as (b2 & c2 & G2 & Hb2 & G3 & _).
    pose proof (get_lt _ _ _ G2) as Ht. pose proof (get_lt _ _ _ G3) as Ht3. rewrite mlen_m in Ht, Ht3.
    rewrite get_m' in G, G1 by lia.
    rewrite (mask_ptr b c1) by eauto using nth_wf.
    destruct ffuel as [|ffuel]; [lia|].
    destruct (IH ltac:(lia) ltac:(lia) b2 c2 G2 G3 ffuel buf ltac:(lia)) as (ff' & Hff & H12 & Hlt & E).
    exists ff'. split; [exact Hff|]. split; [exact H12|]. split; [exact Hlt|].
    rewrite nb_follow_some.
    destruct (N.ltb_spec (ptr_val b c1) 12); [lia|].
    unfold cmp_ge. destruct (N.leb_spec (seg - 12) (ptr_val b c1 - 12)); [lia|].
    rewrite get_from_some by lia.
    (* the segment at the target starts with a pointer: returns at once *)
    rewrite get_m' in G2, G3 by lia.
    replace (N.to_nat (ptr_val b c1 + 1 - 12)) with (S (N.to_nat (ptr_val b c1 - 12))) in G3 by lia.
    rewrite (skipn_nth_cons _ _ _ G2). rewrite (skipn_nth_cons _ _ _ G3).
    rewrite nb_segment_cons.
    destruct (N.eqb_spec b2 0); [lia|]. destruct (N.ltb_spec b2 64); [lia|].
    destruct (N.leb_spec 192 b2); [|lia]. cbn [bind]. exact E.
Qed.

Lemma new_complete cur seg nl n e : dpath R_new m cur seg nl n e -> 12 <= seg -> seg <= cur ->
  forall buf fuel ffuel, len buf = nl -> nl < 255 ->
    (length (skipn (N.to_nat (cur - 12)) c) < fuel)%nat -> (N.to_nat (seg - 12) < ffuel)%nat ->
    exists ptr rest buf',
      nb_segment fuel (skipn (N.to_nat (cur - 12)) c) buf = Ok (ptr, rest, buf') /\
      12 + len c = e + len rest /\
      nb_follow ffuel 12 true c ptr (seg - 12) buf' = Ok (buf ++ wire_abs n).
Proof.
  induction 1 as [cur seg nl G|cur seg nl b rest e G Hb1 Hb2 Hlen Hcap D IH|cur seg nl t rest e' PC D IH];
    intros Hseg Hsc buf fuel ffuel Hbuf Hnl Hfuel Hff.
  - pose proof (get_lt _ _ _ G) as Hlt. rewrite mlen_m in Hlt. rewrite get_m' in G by lia.
    rewrite (skipn_nth_cons _ _ _ G) in Hfuel |- *.
    destruct fuel as [|fuel]; [lia|]. rewrite nb_segment_cons. cbn [N.eqb].
    unfold nb_append. change (len [0]) with 1.
    destruct (N.ltb_spec 255 (len buf + 1)); [lia|]. cbn [bind].
    do 3 eexists. split; [reflexivity|]. split.
    + rewrite len_skipn by (unfold len in *; lia). lia.
    + destruct ffuel; reflexivity.
  - pose proof (get_lt _ _ _ G) as Hlt. rewrite mlen_m in Hlt, Hlen. rewrite get_m' in G by lia.
    destruct (label_step (cur - 12) b G ltac:(lia)) as (F1 & F2 & F3).
    replace (12 + (cur - 12) + 1) with (cur + 1) in F1, F3 by lia.
    assert (Hbs : len (skipn (N.to_nat (cur - 12)) c) = len c - (cur - 12)).
    { rewrite len_skipn by (unfold len in *; lia). lia. }
    destruct fuel as [|fuel]; [lia|].
    pose proof (skipn_nth_cons _ _ _ G) as Ebs. rewrite Ebs in *.
    rewrite nb_segment_cons.
    destruct (N.eqb_spec b 0); [lia|]. destruct (N.ltb_spec b 64); [|lia].
    destruct (N.ltb_spec (len (b :: skipn (S (N.to_nat (cur - 12))) c)) (1 + b)); [lia|].
    destruct (N.ltb_spec 255 (len buf)); [lia|].
    destruct (N.ltb_spec (255 - len buf) (2 + b)); [lia|].
    rewrite F1, F2. unfold nb_append.
    assert (Hwl : len (wire_label (slice m (cur + 1) (cur + 1 + b))) = 1 + b).
    { unfold len, wire_label. cbn [length]. rewrite F3. lia. }
    rewrite Hwl. destruct (N.ltb_spec 255 (len buf + (1 + b))); [lia|]. cbn [bind].
    replace (cur - 12 + 1 + b) with (cur + 1 + b - 12) by lia.
    destruct (IH Hseg ltac:(lia) (buf ++ wire_label (slice m (cur + 1) (cur + 1 + b))) fuel ffuel)
      as (ptr & rest' & buf' & S1 & S2 & S3).
    { unfold len in *. rewrite app_length. lia. }
    { lia. }
    { rewrite skipn_length. cbn [length] in Hfuel. rewrite skipn_length in Hfuel. unfold len in *. lia. }
    { exact Hff. }
    exists ptr, rest', buf'. split; [exact S1|]. split; [exact S2|].
    rewrite S3. rewrite wire_abs_cons', app_assoc. reflexivity.
  - destruct (pchain_first _ _ _ _ _ PC) as (b & c0 & G & Hb & G1 & [HR1 HR2]).
    pose proof (get_lt _ _ _ G1) as Hlt. rewrite mlen_m in Hlt.
    pose proof G as G'. pose proof G1 as G1'.
    rewrite get_m' in G', G1' by lia.
    replace (N.to_nat (cur + 1 - 12)) with (S (N.to_nat (cur - 12))) in G1' by lia.
    rewrite (skipn_nth_cons _ _ _ G') in Hfuel |- *. rewrite (skipn_nth_cons _ _ _ G1') in Hfuel |- *.
    destruct fuel as [|fuel]; [lia|]. rewrite nb_segment_cons.
    destruct (N.eqb_spec b 0); [lia|]. destruct (N.ltb_spec b 64); [lia|].
    destruct (N.leb_spec 192 b); [|lia].
    do 3 eexists. split; [reflexivity|]. split.
    + rewrite len_skipn by (unfold len in *; lia). lia.
    + destruct (follow_chain _ _ _ PC Hseg Hsc b c0 G G1 ffuel buf Hff) as (ff' & Hff' & H12 & Hlt' & E).
      rewrite E.
      destruct (IH ltac:(lia) ltac:(lia) buf (S (length (skipn (N.to_nat (t - 12)) c))) ff' Hbuf Hnl ltac:(lia) Hff')
        as (ptr & rest' & buf' & S1 & S2 & S3).
      rewrite S1. cbn [bind]. exact S3.
Qed.

(* ================= soundness ================= *)
Lemma wire_abs_app ls tail : wire_abs (ls ++ tail) = wire_rel ls ++ wire_abs tail.
Proof. unfold wire_abs. rewrite wire_rel_app, app_assoc. reflexivity. Qed.

Definition term_bytes (ptr : option N) : bytes := match ptr with None => [0] | Some _ => [] end.
Definition term_len (ptr : option N) : N := match ptr with None => 1 | Some _ => 2 end.

Lemma seg_sound fuel : forall i buf ptr rest buf' nl,
  i <= len c -> len buf = nl -> nl < 255 ->
  nb_segment fuel (skipn (N.to_nat i) c) buf = Ok (ptr, rest, buf') ->
  exists ls j, i <= j /\ buf' = buf ++ wire_rel ls ++ term_bytes ptr /\
    12 + len c = 12 + j + term_len ptr + len rest /\
    nl + N.of_nat (wire_len ls) < 255 /\
    (ls = [] -> j = i) /\
    ((ptr = None \/ ls <> []) -> exists fb, get m (12 + i) = Some fb /\ fb <= 63) /\
    (forall R seg tail e, dpath R m (12 + j) seg (nl + N.of_nat (wire_len ls)) tail e ->
                          dpath R m (12 + i) seg nl (ls ++ tail) e) /\
    match ptr with
    | None => get m (12 + j) = Some 0
    | Some pv => exists b c0, get m (12 + j) = Some b /\ 192 <= b /\ get m (12 + j + 1) = Some c0 /\ pv = ptr_val b c0
    end.
Proof.
  induction fuel as [|fuel IH]; intros i buf ptr rest buf' nl Hi Hbuf Hnl H; [discriminate|].
  destruct (nth_error c (N.to_nat i)) as [b|] eqn:G.
  2:{ rewrite (skipn_nth_nil _ _ G) in H. discriminate. }
  assert (Hlt : i < len c).
  { assert (N.to_nat i < length c)%nat by (apply nth_error_Some; congruence). unfold len. lia. }
  rewrite (skipn_nth_cons _ _ _ G) in H. rewrite nb_segment_cons in H.
  destruct (N.eqb_spec b 0) as [Hb0|Hb0].
  - rewrite Hb0 in G. clear Hb0. unfold nb_append in H. change (len [0]) with 1 in H.
    remember (skipn (S (N.to_nat i)) c) as tl eqn:Etl in H.
    destruct (N.ltb_spec 255 (len buf + 1)); [discriminate|]. cbn [bind] in H.
    injection H as Ep Er Eb'; subst ptr rest buf' tl. exists [], i.
    split; [lia|]. split; [reflexivity|]. split.
    { cbn [term_len]. rewrite len_skipn by (unfold len in *; lia). lia. }
    split; [cbn; lia|]. split; [auto|]. split.
    { intros _. exists 0. rewrite get_m. split; [exact G|lia]. }
    split.
    { intros R seg tail e D. cbn [wire_len app] in *. replace (nl + N.of_nat 0) with nl in D by lia. exact D. }
    rewrite get_m. exact G.
  - destruct (N.ltb_spec b 64) as [Hb|Hb].
    + assert (Hbs : len (b :: skipn (S (N.to_nat i)) c) = len c - i).
      { rewrite <- (skipn_nth_cons _ _ _ G). rewrite len_skipn by (unfold len in *; lia). lia. }
      rewrite Hbs in H.
      destruct (N.ltb_spec (len c - i) (1 + b)) as [Hs|Hs]; [discriminate|].
      destruct (N.ltb_spec 255 (len buf)); [discriminate|].
      destruct (N.ltb_spec (255 - len buf) (2 + b)) as [Hc|Hc]; [discriminate|].
      destruct (label_step i b G ltac:(lia)) as (F1 & F2 & F3).
      rewrite (skipn_nth_cons _ _ _ G) in F1, F2. rewrite F1, F2 in H.
      unfold nb_append in H.
      assert (Hwl : len (wire_label (slice m (12 + i + 1) (12 + i + 1 + b))) = 1 + b).
      { unfold len, wire_label. cbn [length]. rewrite F3. lia. }
      rewrite Hwl in H. destruct (N.ltb_spec 255 (len buf + (1 + b))); [lia|]. cbn [bind] in H.
      apply IH with (nl := nl + b + 1) in H; [|lia|unfold len in *; rewrite app_length; lia|lia].
      destruct H as (ls & j & Hij & Eb & El & Hw & Hj & _ & P & T).
      exists (slice m (12 + i + 1) (12 + i + 1 + b) :: ls), j.
      split; [lia|]. split.
      { rewrite Eb. unfold wire_rel at 2. cbn [map concat]. fold (wire_rel ls). rewrite <- !app_assoc. reflexivity. }
      split; [exact El|]. split; [cbn [wire_len]; rewrite F3; lia|]. split; [discriminate|]. split.
      { intros _. exists b. rewrite get_m. split; [exact G|lia]. }
      split; [|exact T].
      intros R seg tail e D. cbn [app].
      eapply dp_label; [rewrite get_m; exact G|lia|lia|rewrite mlen_m; lia|lia|].
      replace (12 + i + 1 + b) with (12 + (i + 1 + b)) by lia. apply P.
      cbn [wire_len] in D. rewrite F3 in D.
      replace (nl + b + 1 + N.of_nat (wire_len ls)) with (nl + N.of_nat (S (N.to_nat b) + wire_len ls)) by lia. exact D.
    + destruct (nth_error c (S (N.to_nat i))) as [lo|] eqn:G1.
      2:{ rewrite (skipn_nth_nil _ _ G1) in H. discriminate. }
      rewrite (skipn_nth_cons _ _ _ G1) in H.
      remember (skipn (S (S (N.to_nat i))) c) as tl eqn:Etl in H.
      destruct (N.leb_spec 192 b) as [Hb2|Hb2]; [|discriminate].
      injection H as Ep Er Eb'; subst ptr rest buf' tl. exists [], i.
      assert (Hlt1 : i + 1 < len c).
      { assert (S (N.to_nat i) < length c)%nat by (apply nth_error_Some; congruence). unfold len. lia. }
      split; [lia|]. split; [cbn; rewrite app_nil_r; reflexivity|]. split.
      { cbn [term_len]. rewrite len_skipn by (unfold len in *; lia). lia. }
      split; [cbn; lia|]. split; [auto|]. split.
      { intros [E|E]; [discriminate|contradiction]. }
      split.
      { intros R seg tail e D. cbn [wire_len app] in *. replace (nl + N.of_nat 0) with nl in D by lia. exact D. }
      exists b, lo. rewrite get_m. replace (12 + i + 1) with (12 + (i + 1)) by lia. rewrite get_m.
      replace (N.to_nat (i + 1)) with (S (N.to_nat i)) by lia.
      split; [exact G|]. split; [exact Hb2|]. split; [exact G1|].
      apply mask_ptr; eauto using nth_wf.
Qed.

Lemma dpath_at_ptr R cur seg nl n e b : dpath R m cur seg nl n e -> get m cur = Some b -> 192 <= b ->
  exists t e', pchain R m seg cur t /\ dpath R m t t nl n e' /\ e = cur + 2.
Proof.
  intros D G Hb. inversion D; subst.
  - rewrite G in H. inversion H. lia.
  - rewrite G in H. inversion H. lia.
  - eauto.
Qed.

Lemma follow_sound ffuel : forall pv old_start buf w nl j b c0,
  nb_follow ffuel 12 true c (Some pv) old_start buf = Ok w ->
  get m (12 + j) = Some b -> 192 <= b -> get m (12 + j + 1) = Some c0 -> pv = ptr_val b c0 ->
  old_start <= j -> len buf = nl -> nl < 255 ->
  exists tail, w = buf ++ wire_abs tail /\ dpath R_new m (12 + j) (12 + old_start) nl tail (12 + j + 2).
Proof.
  induction ffuel as [|ffuel IH]; intros pv old_start buf w nl j b c0 H G Hb G1 Hpv Hoj Hbuf Hnl; [discriminate|].
  rewrite nb_follow_some in H.
  destruct (N.ltb_spec pv 12) as [|H12]; [discriminate|].
  unfold cmp_ge in H. destruct (N.leb_spec old_start (pv - 12)) as [|Hlt]; [discriminate|].
  pose proof (get_lt _ _ _ G) as Hjl. rewrite mlen_m in Hjl.
  rewrite get_from_some in H by lia.
  destruct (nb_segment (S (length (skipn (N.to_nat (pv - 12)) c))) (skipn (N.to_nat (pv - 12)) c) buf)
    as [[[ptr' rest'] buf']| | |] eqn:ES; cbn [bind] in H; try discriminate.
  destruct (seg_sound _ (pv - 12) buf ptr' rest' buf' nl ltac:(lia) Hbuf Hnl ES) as (ls & j' & Hij & Eb & El & Hw & Hj & Hfb & P & T).
  replace (12 + (pv - 12)) with pv in * by lia.
  assert (HR : R_new (12 + old_start) (12 + j) pv) by (unfold R_new; lia).
  destruct ptr' as [pv2|].
  - destruct T as (b2 & c2 & G2 & Hb2 & G3 & Hpv2).
    destruct (IH _ _ _ _ (nl + N.of_nat (wire_len ls)) j' b2 c2 H G2 Hb2 G3 Hpv2 Hij) as (tail2 & Ew & D2).
    { rewrite Eb. cbn [term_bytes]. rewrite app_nil_r. unfold len in *. rewrite app_length, wire_rel_length. lia. }
    { lia. }
    exists (ls ++ tail2). split.
    { rewrite Ew, Eb. cbn [term_bytes]. rewrite app_nil_r, wire_abs_app, app_assoc. reflexivity. }
    pose proof (P _ _ _ _ D2) as D.
    replace (12 + (pv - 12)) with pv in D by lia.
    destruct ls as [|l0 ls].
    + (* the target is itself a pointer *)
      rewrite (Hj eq_refl) in *. replace (12 + (pv - 12)) with pv in * by lia.
      cbn [app] in D.
      destruct (dpath_at_ptr _ _ _ _ _ _ _ D G2 Hb2) as (t & e' & PC & Dt & _).
      eapply dp_ptr; [|exact Dt]. subst pv. eapply pc_more; eauto.
    + destruct (Hfb ltac:(right; discriminate)) as (fb & Gf & Hf).
      eapply dp_ptr; [|exact D]. subst pv. eapply pc_last; eauto.
  - assert (Ew : w = buf') by (destruct ffuel; cbn [nb_follow] in H; congruence). subst w. exists ls. split.
    { rewrite Eb. cbn [term_bytes]. unfold wire_abs. reflexivity. }
    destruct (Hfb ltac:(left; reflexivity)) as (fb & Gf & Hf).
    assert (D : dpath R_new m pv pv nl (ls ++ []) (12 + j' + 1)).
    { apply P. constructor. exact T. }
    rewrite app_nil_r in D.
    eapply dp_ptr; [|exact D]. subst pv. eapply pc_last; eauto.
Qed.

Theorem new_split_sound start w e : new_split c start = Ok (w, e) ->
  exists n, w = wire_abs n /\ dpath R_new m (12 + start) (12 + start) 0 n (12 + e).
Proof.
  unfold new_split. intros H.
  unfold get_from in H. destruct (N.ltb_spec (len c) start) as [|Hs]; [discriminate|].
  destruct (nb_segment (S (length (skipn (N.to_nat start) c))) (skipn (N.to_nat start) c) [])
    as [[[ptr rest] buf]| | |] eqn:ES; cbn [bind] in H; try discriminate.
  destruct (N.ltb_spec (len c) (len rest)); [discriminate|].
  destruct (seg_sound _ start [] ptr rest buf 0 Hs eq_refl ltac:(lia) ES) as (ls & j & Hij & Eb & El & Hw & Hj & Hfb & P & T).
  change nb_split_hdr with 12 in H. change nb_split_rule_ge with true in H.
  destruct ptr as [pv|].
  - destruct T as (b & c0 & G & Hb & G1 & Hpv).
    destruct (nb_follow (follow_fuel start) 12 true c (Some pv) start buf) as [w'| | |] eqn:EF; cbn [bind] in H; try discriminate.
    inversion H; subst w' e.
    destruct (follow_sound _ _ _ _ _ (0 + N.of_nat (wire_len ls)) j b c0 EF G Hb G1 Hpv Hij) as (tail & Ew & D).
    { rewrite Eb. cbn [term_bytes app]. rewrite app_nil_r. unfold len. rewrite wire_rel_length. lia. }
    { lia. }
    exists (ls ++ tail). split.
    { rewrite Ew, Eb. cbn [term_bytes app]. rewrite app_nil_r. apply eq_sym, wire_abs_app. }
    cbn [term_len] in El. replace (12 + (len c - len rest)) with (12 + j + 2) by lia.
    apply P. exact D.
  - cbn [nb_follow bind] in H. inversion H; subst w e. exists ls. split.
    { rewrite Eb. reflexivity. }
    cbn [term_len] in El. replace (12 + (len c - len rest)) with (12 + j + 1) by lia.
    rewrite <- (app_nil_r ls). apply P. constructor. exact T.
Qed.

Theorem new_split_complete start n e : dpath R_new m (12 + start) (12 + start) 0 n e ->
  new_split c start = Ok (wire_abs n, e - 12) /\ 12 <= e.
Proof.
  intros D. unfold new_split.
  assert (Hs : start <= len c).
  { assert (exists b, get m (12 + start) = Some b) as (b & G).
    { inversion D; subst; eauto. destruct (pchain_first _ _ _ _ _ H) as (b & ? & G & _). eauto. }
    apply get_lt in G. rewrite mlen_m in G. lia. }
  rewrite get_from_some by exact Hs.
  destruct (new_complete _ _ _ _ _ D ltac:(lia) ltac:(lia) [] (S (length (skipn (N.to_nat start) c))) (follow_fuel start) eq_refl ltac:(lia))
    as (ptr & rest & buf' & S1 & S2 & S3).
  { replace (12 + start - 12) with start by lia. lia. }
  { unfold follow_fuel. lia. }
  replace (12 + start - 12) with start in * by lia.
  pose proof (dpath_e_gt _ _ _ _ _ _ _ D) as Hegt.
  rewrite S1. cbn [bind]. destruct (N.ltb_spec (len c) (len rest)); [lia|].
  change nb_split_hdr with 12. change nb_split_rule_ge with true. rewrite S3. cbn [bind app].
  split; [|lia]. do 2 f_equal. lia.
Qed.
End NEW.
