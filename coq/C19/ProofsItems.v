(* C19 proofs, part 8: Question / Record split_message_bytes of the new API
   against C01's model of the old Question::parse / ParsedRecord::parse. *)
From Coq Require Import NArith List Bool Lia ZArith.
From Coq Require Import ZifyN ZifyBool ZifyNat.
From DV Require Import Base.Outcome Base.Bytes Base.Names Base.PName C19.Gen C19.Model
  C19.ProofsOld C19.ProofsNew C19.ProofsAgree C01.Model.
Import ListNotations.
Local Open Scope N_scope.
Ltac Zify.zify_post_hook ::= Z.div_mod_to_equations.

(* parse_ref alone determines the labels the iterator will produce *)
Lemma labels_core m F p pn : (256 <= F)%nat ->
  parse_labels F m (mlen m) p 0 p false None = Ok pn ->
  exists n, iter_labels F m (pn_pos pn) (pn_len pn) [] = Ok (n, true).
Proof.
  intros HF P.
  destruct (parse_labels_sound m F p 0 p false None pn p ltac:(lia) ltac:(auto) P) as (n & e & D & Hl & He & _ & Hp).
  destruct (Hp eq_refl) as (e' & D').
  destruct (dpath_len _ _ _ _ _ _ _ D ltac:(lia)) as [L1 L2].
  exists n. rewrite Hl.
  replace (0 + N.of_nat (wire_len n) + 1) with (N.of_nat (wire_len n) + 1) by lia.
  apply (iter_labels_complete _ _ _ _ _ _ D'). lia.
Qed.

Lemma parse_ref_labels m p pn : parse_ref m p (mlen m) = Ok pn ->
  exists n, pname_labels m pn = Ok (n, true) /\ decode_name m p (mlen m) = Ok (n, pn_end pn).
Proof.
  unfold decode_name, parse_ref, pname_labels.
  generalize parse_fuel_ge. generalize PARSE_FUEL. intros F HF P.
  destruct (labels_core m F p pn HF P) as (n & L). exists n. rewrite P. cbn [bind]. rewrite L. cbn [bind fst]. auto.
Qed.

Lemma decode_parse_ref m p n e : decode_name m p (mlen m) = Ok (n, e) ->
  exists pn, parse_ref m p (mlen m) = Ok pn /\ pname_labels m pn = Ok (n, true) /\ pn_end pn = e.
Proof.
  unfold decode_name, parse_ref, pname_labels.
  generalize parse_fuel_ge. generalize PARSE_FUEL. intros F HF H.
  destruct (parse_labels F m (mlen m) p 0 p false None) as [pn|x|x|] eqn:P; cbn [bind] in H; try discriminate H.
  destruct (labels_core m F p pn HF P) as (n' & L). rewrite L in H. cbn [bind fst] in H.
  exists pn. split; [reflexivity|]. split; congruence.
Qed.

Local Opaque parse_ref pname_labels decode_name.

Section ITEMS.
Variables (h c : bytes).
Hypothesis Hh : length h = 12%nat.
Hypothesis Hwf : wf_bytes c.
Let m := h ++ c.

Lemma nth_c i : nth_error c i = get m (12 + N.of_nat i).
Proof. unfold m. rewrite (get_m h c Hh). rewrite Nat2N.id. reflexivity. Qed.

Lemma nu16_old e : e <= len c ->
  match nu16 c e, u16_at m (12 + e) (mlen m) with
  | Ok (v, e'), Ok v' => v = v' /\ e' = e + 2 /\ v < 65536
  | Err _, Err _ => True
  | _, _ => False
  end.
Proof.
  intros He. unfold nu16, nfield, u16_at. unfold m. rewrite (mlen_m h c Hh).
  destruct (N.ltb_spec (len c) e); [lia|].
  destruct (N.ltb_spec (12 + len c - (12 + e)) 2) as [Hs|Hs].
  - destruct (Nat.ltb_spec (length (firstn 2 (skipn (N.to_nat e) c))) 2) as [|Q]; [exact I|].
    rewrite firstn_length, skipn_length in Q. unfold len in *. lia.
  - destruct (Nat.ltb_spec (length (firstn 2 (skipn (N.to_nat e) c))) 2) as [Q|Q].
    { rewrite firstn_length, skipn_length in Q. unfold len in *. lia. }
    cbn [bind fst snd].
    assert (G0 : exists a, nth_error c (N.to_nat e) = Some a).
    { destruct (nth_error c (N.to_nat e)) eqn:E; [eauto|]. apply nth_error_None in E. unfold len in *. lia. }
    assert (G1 : exists b, nth_error c (S (N.to_nat e)) = Some b).
    { destruct (nth_error c (S (N.to_nat e))) eqn:E; [eauto|]. apply nth_error_None in E. unfold len in *. lia. }
    destruct G0 as (a & G0), G1 as (b & G1).
    rewrite (skipn_nth_cons _ _ _ G0), (skipn_nth_cons _ _ _ G1). cbn [firstn be_val fold_left].
    rewrite (get_m h c Hh), G0. replace (12 + e + 1) with (12 + (e + 1)) by lia. rewrite (get_m h c Hh).
    replace (N.to_nat (e + 1)) with (S (N.to_nat e)) by lia. rewrite G1.
    pose proof (nth_wf c Hwf _ _ G0). pose proof (nth_wf c Hwf _ _ G1). repeat split; lia.
Qed.

Lemma nu32_old e : e <= len c ->
  match nu32 c e, u32_at m (12 + e) (mlen m) with
  | Ok (v, e'), Ok v' => v = v' /\ e' = e + 4
  | Err _, Err _ => True
  | _, _ => False
  end.
Proof.
  intros He. unfold nu32, nfield, u32_at. unfold m. rewrite (mlen_m h c Hh).
  destruct (N.ltb_spec (len c) e); [lia|].
  destruct (N.ltb_spec (12 + len c - (12 + e)) 4) as [Hs|Hs].
  - destruct (Nat.ltb_spec (length (firstn 4 (skipn (N.to_nat e) c))) 4) as [|Q]; [exact I|].
    rewrite firstn_length, skipn_length in Q. unfold len in *. lia.
  - destruct (Nat.ltb_spec (length (firstn 4 (skipn (N.to_nat e) c))) 4) as [Q|Q].
    { rewrite firstn_length, skipn_length in Q. unfold len in *. lia. }
    cbn [bind fst snd].
    assert (G : forall k, (k < 4)%nat -> exists a, nth_error c (k + N.to_nat e) = Some a).
    { intros k Hk. destruct (nth_error c (k + N.to_nat e)) eqn:E; [eauto|]. apply nth_error_None in E. unfold len in *. lia. }
    destruct (G 0%nat ltac:(lia)) as (a0 & G0), (G 1%nat ltac:(lia)) as (a1 & G1),
             (G 2%nat ltac:(lia)) as (a2 & G2), (G 3%nat ltac:(lia)) as (a3 & G3).
    cbn [plus] in G0, G1, G2, G3.
    rewrite (skipn_nth_cons _ _ _ G0), (skipn_nth_cons _ _ _ G1), (skipn_nth_cons _ _ _ G2), (skipn_nth_cons _ _ _ G3).
    cbn [firstn be_val fold_left].
    rewrite (get_m h c Hh), G0.
    replace (12 + e + 1) with (12 + (e + 1)) by lia. rewrite (get_m h c Hh). replace (N.to_nat (e + 1)) with (S (N.to_nat e)) by lia. rewrite G1.
    replace (12 + e + 2) with (12 + (e + 2)) by lia. rewrite (get_m h c Hh). replace (N.to_nat (e + 2)) with (S (S (N.to_nat e))) by lia. rewrite G2.
    replace (12 + e + 3) with (12 + (e + 3)) by lia. rewrite (get_m h c Hh). replace (N.to_nat (e + 3)) with (S (S (S (N.to_nat e)))) by lia. rewrite G3.
    split; lia.
Qed.

(* end positions the new name reader returns lie inside the contents *)
Lemma new_split_end start w e : new_split c start = Ok (w, e) -> e <= len c.
Proof.
  intros H. destruct (new_split_sound h c Hh Hwf _ _ _ H) as (n & _ & D).
  clear H. assert (Q : forall R mm cur seg nl nn ee, dpath R mm cur seg nl nn ee -> ee <= mlen mm).
  { induction 1; auto.
    - apply get_lt in H. lia.
    - destruct (pchain_first _ _ _ _ _ H) as (? & ? & _ & _ & G & _). apply get_lt in G. lia. }
  apply Q in D. rewrite (mlen_m h c Hh) in D. lia.
Qed.

(* ---- questions ---- *)
Theorem question_new_to_old start w ty cl e : new_question c start = Ok (w, ty, cl, e) ->
  exists q n, question_parse m (12 + start) (mlen m) = Ok q /\ pname_labels m (q_name q) = Ok (n, true) /\
    w = wire_abs n /\ q_type q = ty /\ q_class q = cl /\ q_end q = 12 + e.
Proof.
  unfold new_question. intros H.
  destruct (new_split c start) as [[w0 e0]| | |] eqn:S; cbn [bind fst snd] in H; try discriminate H.
  pose proof (new_split_end _ _ _ S) as He0.
  destruct (new_refines_old h c Hh Hwf _ _ _ S) as (n & D & Ew). fold m in D.
  destruct (decode_parse_ref _ _ _ _ D) as (pn & P & L & Pe).
  pose proof (nu16_old e0 He0) as U1.
  destruct (nu16 c e0) as [[t1 e1]| | |]; cbn [bind fst snd] in H; try discriminate H.
  destruct (u16_at m (12 + e0) (mlen m)) as [t1'| | |] eqn:A1; try contradiction. destruct U1 as (Ea & Eb & _). subst t1' e1.
  assert (He2 : e0 + 2 <= len c).
  { unfold u16_at in A1. unfold m in A1. rewrite (mlen_m h c Hh) in A1.
    destruct (N.ltb_spec (12 + len c - (12 + e0)) 2); [discriminate A1|lia]. }
  pose proof (nu16_old (e0 + 2) He2) as U2.
  destruct (nu16 c (e0 + 2)) as [[t2 e2]| | |]; cbn [bind fst snd] in H; try discriminate H.
  destruct (u16_at m (12 + (e0 + 2)) (mlen m)) as [t2'| | |] eqn:A2; try contradiction. destruct U2 as (Ea & Eb & _). subst t2' e2.
  inversion H; subst. clear H.
  exists (mkQ pn ty cl (pn_end pn + 4)), n. unfold question_parse. rewrite P. cbn [bind]. rewrite Pe, A1. cbn [bind].
  replace (12 + e0 + 2) with (12 + (e0 + 2)) by lia. rewrite A2. cbn [bind q_name q_type q_class q_end].
  repeat split; auto. lia.
Qed.

Theorem question_old_to_new start q : kclass m (12 + start) = KNone ->
  question_parse m (12 + start) (mlen m) = Ok q ->
  exists n, pname_labels m (q_name q) = Ok (n, true) /\ 16 <= q_end q /\
    new_question c start = Ok (wire_abs n, q_type q, q_class q, q_end q - 12).
Proof.
  intros K H. unfold question_parse in H.
  destruct (parse_ref m (12 + start) (mlen m)) as [pn| | |] eqn:P; cbn [bind] in H; try discriminate H.
  destruct (parse_ref_labels _ _ _ P) as (n & L & D).
  destruct (old_refines_new_outside_known h c Hh Hwf _ _ _ K D) as [He S].
  pose proof (new_split_end _ _ _ S) as He0.
  destruct (u16_at m (pn_end pn) (mlen m)) as [t1| | |] eqn:A1; cbn [bind] in H; try discriminate H.
  destruct (u16_at m (pn_end pn + 2) (mlen m)) as [t2| | |] eqn:A2; cbn [bind] in H; try discriminate H.
  inversion H; subst q. cbn [q_name q_type q_class q_end]. exists n. split; [exact L|].
  unfold new_question. rewrite S. cbn [bind fst snd].
  pose proof (nu16_old (pn_end pn - 12) He0) as U1. replace (12 + (pn_end pn - 12)) with (pn_end pn) in U1 by lia. rewrite A1 in U1.
  destruct (nu16 c (pn_end pn - 12)) as [[v1 e1]| | |]; try contradiction. destruct U1 as (Ea & Eb & _). subst v1 e1. cbn [bind fst snd].
  assert (He2 : pn_end pn - 12 + 2 <= len c).
  { unfold u16_at in A1. unfold m in A1. rewrite (mlen_m h c Hh) in A1.
    destruct (N.ltb_spec (12 + len c - pn_end pn) 2); [discriminate A1|lia]. }
  pose proof (nu16_old (pn_end pn - 12 + 2) He2) as U2.
  replace (12 + (pn_end pn - 12 + 2)) with (pn_end pn + 2) in U2 by lia. rewrite A2 in U2.
  destruct (nu16 c (pn_end pn - 12 + 2)) as [[v2 e2]| | |]; try contradiction. destruct U2 as (Ea & Eb & _). subst v2 e2. cbn [bind fst snd].
  split; [lia|]. do 2 f_equal. lia.
Qed.

(* ---- records (header fields and the extent of the RDATA) ---- *)
Lemma u16_at_room e v : u16_at m (12 + e) (mlen m) = Ok v -> e + 2 <= len c.
Proof.
  unfold u16_at. unfold m. rewrite (mlen_m h c Hh).
  destruct (N.ltb_spec (12 + len c - (12 + e)) 2); [discriminate|lia].
Qed.
Lemma u32_at_room e v : u32_at m (12 + e) (mlen m) = Ok v -> e + 4 <= len c.
Proof.
  unfold u32_at. unfold m. rewrite (mlen_m h c Hh).
  destruct (N.ltb_spec (12 + len c - (12 + e)) 4); [discriminate|lia].
Qed.

Theorem record_new_to_old start w ty cl ttl d e : new_record c start = Ok (w, ty, cl, ttl, d, e) ->
  exists r n, record_parse m (12 + start) (mlen m) = Ok r /\ pname_labels m (rr_owner r) = Ok (n, true) /\
    w = wire_abs n /\ rr_type r = ty /\ rr_class r = cl /\ rr_ttl r = ttl /\
    rr_data r = 12 + d /\ rr_end r = 12 + e /\ rr_rdlen r = e - d.
Proof.
  unfold new_record. intros H.
  destruct (new_split c start) as [[w0 e0]| | |] eqn:S; cbn [bind fst snd] in H; try discriminate H.
  pose proof (new_split_end _ _ _ S) as He0.
  destruct (new_refines_old h c Hh Hwf _ _ _ S) as (n & D & Ew). fold m in D.
  destruct (decode_parse_ref _ _ _ _ D) as (pn & P & L & Pe).
  pose proof (nu16_old e0 He0) as U1.
  destruct (nu16 c e0) as [[t1 e1]| | |]; cbn [bind fst snd] in H; try discriminate H.
  destruct (u16_at m (12 + e0) (mlen m)) as [t1'| | |] eqn:A1; try contradiction. destruct U1 as (Ea & Eb & _). subst t1' e1.
  pose proof (nu16_old (e0 + 2) (u16_at_room _ _ A1)) as U2.
  destruct (nu16 c (e0 + 2)) as [[t2 e2]| | |]; cbn [bind fst snd] in H; try discriminate H.
  destruct (u16_at m (12 + (e0 + 2)) (mlen m)) as [t2'| | |] eqn:A2; try contradiction. destruct U2 as (Ea & Eb & _). subst t2' e2.
  pose proof (u16_at_room _ _ A2) as R2.
  pose proof (nu32_old (e0 + 2 + 2) R2) as U3.
  destruct (nu32 c (e0 + 2 + 2)) as [[t3 e3]| | |]; cbn [bind fst snd] in H; try discriminate H.
  destruct (u32_at m (12 + (e0 + 2 + 2)) (mlen m)) as [t3'| | |] eqn:A3; try contradiction. destruct U3 as (Ea & Eb). subst t3' e3.
  pose proof (u32_at_room _ _ A3) as R3.
  pose proof (nu16_old (e0 + 2 + 2 + 4) R3) as U4.
  destruct (nu16 c (e0 + 2 + 2 + 4)) as [[t4 e4]| | |]; cbn [bind fst snd] in H; try discriminate H.
  destruct (u16_at m (12 + (e0 + 2 + 2 + 4)) (mlen m)) as [t4'| | |] eqn:A4; try contradiction. destruct U4 as (Ea & Eb & Hsz). subst t4' e4.
  destruct (N.ltb_spec (len c) (e0 + 2 + 2 + 4 + 2 + t4)) as [|Hroom]; [discriminate H|].
  destruct (N.ltb_spec 65535 t4); [discriminate H|].
  inversion H; subst. clear H.
  exists (mkRR pn ty cl ttl t4 (pn_end pn + 10) (pn_end pn + 10 + t4)), n.
  unfold record_parse. rewrite P. cbn [bind]. cbv zeta. rewrite Pe, A1. cbn [bind].
  replace (12 + e0 + 2) with (12 + (e0 + 2)) by lia. rewrite A2. cbn [bind].
  replace (12 + e0 + 4) with (12 + (e0 + 2 + 2)) by lia. rewrite A3. cbn [bind].
  replace (12 + e0 + 8) with (12 + (e0 + 2 + 2 + 4)) by lia. rewrite A4. cbn [bind].
  unfold m. rewrite (mlen_m h c Hh).
  destruct (N.ltb_spec (12 + len c - (12 + e0 + 10)) t4); [lia|].
  cbn [rr_owner rr_type rr_class rr_ttl rr_rdlen rr_data rr_end]. repeat split; auto; lia.
Qed.

Theorem record_old_to_new start r : kclass m (12 + start) = KNone ->
  record_parse m (12 + start) (mlen m) = Ok r ->
  exists n, pname_labels m (rr_owner r) = Ok (n, true) /\ 22 <= rr_data r /\
    new_record c start = Ok (wire_abs n, rr_type r, rr_class r, rr_ttl r, rr_data r - 12, rr_end r - 12).
Proof.
  intros K H. unfold record_parse in H.
  destruct (parse_ref m (12 + start) (mlen m)) as [pn| | |] eqn:P; cbn [bind] in H; try discriminate H. cbv zeta in H.
  destruct (parse_ref_labels _ _ _ P) as (n & L & D).
  destruct (old_refines_new_outside_known h c Hh Hwf _ _ _ K D) as [He S].
  pose proof (new_split_end _ _ _ S) as He0.
  set (e0 := pn_end pn - 12) in *. assert (Epn : pn_end pn = 12 + e0) by (unfold e0; lia). rewrite Epn in H.
  destruct (u16_at m (12 + e0) (mlen m)) as [t1| | |] eqn:A1; cbn [bind] in H; try discriminate H.
  replace (12 + e0 + 2) with (12 + (e0 + 2)) in H by lia.
  destruct (u16_at m (12 + (e0 + 2)) (mlen m)) as [t2| | |] eqn:A2; cbn [bind] in H; try discriminate H.
  replace (12 + e0 + 4) with (12 + (e0 + 2 + 2)) in H by lia.
  destruct (u32_at m (12 + (e0 + 2 + 2)) (mlen m)) as [t3| | |] eqn:A3; cbn [bind] in H; try discriminate H.
  replace (12 + e0 + 8) with (12 + (e0 + 2 + 2 + 4)) in H by lia.
  destruct (u16_at m (12 + (e0 + 2 + 2 + 4)) (mlen m)) as [t4| | |] eqn:A4; cbn [bind] in H; try discriminate H.
  unfold m in H. rewrite (mlen_m h c Hh) in H. fold m in H.
  destruct (N.ltb_spec (12 + len c - (12 + e0 + 10)) t4) as [|Hroom]; [discriminate H|].
  assert (Er : r = mkRR pn t1 t2 t3 t4 (12 + e0 + 10) (12 + e0 + 10 + t4)) by congruence. subst r.
  cbn [rr_owner rr_type rr_class rr_ttl rr_rdlen rr_data rr_end]. clear H.
  exists n. split; [exact L|]. split; [lia|].
  unfold new_record. rewrite S. cbn [bind fst snd].
  pose proof (nu16_old e0 He0) as U1. rewrite A1 in U1.
  destruct (nu16 c e0) as [[v1 e1]| | |]; try contradiction. destruct U1 as (Ea & Eb & _). subst v1 e1. cbn [bind fst snd].
  pose proof (nu16_old (e0 + 2) (u16_at_room _ _ A1)) as U2. rewrite A2 in U2.
  destruct (nu16 c (e0 + 2)) as [[v2 e2]| | |]; try contradiction. destruct U2 as (Ea & Eb & _). subst v2 e2. cbn [bind fst snd].
  pose proof (nu32_old (e0 + 2 + 2) (u16_at_room _ _ A2)) as U3. rewrite A3 in U3.
  destruct (nu32 c (e0 + 2 + 2)) as [[v3 e3]| | |]; try contradiction. destruct U3 as (Ea & Eb). subst v3 e3. cbn [bind fst snd].
  pose proof (nu16_old (e0 + 2 + 2 + 4) (u32_at_room _ _ A3)) as U4. rewrite A4 in U4.
  destruct (nu16 c (e0 + 2 + 2 + 4)) as [[v4 e4]| | |]; try contradiction. destruct U4 as (Ea & Eb & Hsz). subst v4 e4. cbn [bind fst snd].
  pose proof (u16_at_room _ _ A4) as R4.
  destruct (N.ltb_spec (len c) (e0 + 2 + 2 + 4 + 2 + t4)); [lia|].
  destruct (N.ltb_spec 65535 t4); [lia|].
  do 2 f_equal; [f_equal|]; lia.
Qed.
End ITEMS.
