(* C19 proofs, part 11: the octets a message builder writes between names (fixed
   fields, the RDATA size prefix that SizePrefixed::build_in_message reserves
   first and fills in AFTER the RDATA has been built, opaque RDATA) never overlap
   a compressor entry or the root label / pointer behind it; and the compressor
   reads the contents only inside such extents.  Hence patching those octets
   later cannot change what the compressor does. *)
From Coq Require Import NArith List Bool Lia ZArith.
From Coq Require Import ZifyN ZifyBool ZifyNat.
From DV Require Import Base.Outcome Base.Bytes Base.Names Base.PName C19.Gen C19.Model C19.ModelCmp
  C19.ProofsOld C19.ProofsNew C19.ProofsAgree C19.ProofsCmpSound C19.ProofsCmpInv.
Import ListNotations.
Local Open Scope N_scope.
Ltac Zify.zify_post_hook ::= Z.div_mod_to_equations.

(* the extent of a used slot: its octets and what follows them (root: 1, pointer: 2) *)
Definition ext_end (st : cstate) (i : nat) : N :=
  nth i (cs_pos st) 0 + nth i (cs_len st) 0 + (if nth i (cs_par st) 0 =? 64 then 1 else 2).

Lemma Inv_extent st c i : Inv st c -> nth i (cs_len st) 0 <> 0 -> ext_end st i <= len c.
Proof.
  intros [_ H] Hl. specialize (H i). unfold slot_ok in H. cbv zeta in H. destruct (H Hl) as [H1 H2]. unfold ext_end.
  destruct (N.eqb_spec (nth i (cs_par st) 0) 64) as [E|E].
  - specialize (H1 E). unfold byte_at in H1.
    assert (N.to_nat (nth i (cs_pos st) 0%N + nth i (cs_len st) 0%N)%N < length c)%nat by (apply nth_error_Some; congruence).
    unfold len. lia.
  - destruct (H2 E) as (hi & lo & _ & G & _). unfold byte_at in G.
    assert (N.to_nat (nth i (cs_pos st) 0%N + nth i (cs_len st) 0%N + 1)%N < length c)%nat by (apply nth_error_Some; congruence).
    unfold len. lia.
Qed.

(* ---- the compressor reads the contents only inside extents ---- *)
Definition agree (st : cstate) (c c' : bytes) : Prop :=
  len c = len c' /\
  forall i, nth i (cs_len st) 0 <> 0 ->
    slice_opt c (nth i (cs_pos st) 0) (nth i (cs_len st) 0) = slice_opt c' (nth i (cs_pos st) 0) (nth i (cs_len st) 0) /\
    slice_opt c (nth i (cs_pos st) 0 + nth i (cs_len st) 0) 2 = slice_opt c' (nth i (cs_pos st) 0 + nth i (cs_len st) 0) 2.

Lemma lookup_agree k : forall i0 st c c' name parent poff hash, agree st c c' ->
  lookup_from k i0 st c name parent poff hash = lookup_from k i0 st c' name parent poff hash.
Proof.
  induction k as [|k IH]; intros i0 st c c' name parent poff hash A; [reflexivity|].
  rewrite !lookup_step. cbv zeta. rewrite (IH (S i0) st c c' name parent poff hash A).
  destruct (negb (nth i0 (cs_hash st) 0 =? hash) || negb (nth i0 (cs_par st) 0 =? parent)); [reflexivity|].
  destruct (N.eqb_spec (nth i0 (cs_len st) 0) 0) as [|Hz]; [reflexivity|].
  destruct A as [_ A]. destruct (A i0 Hz) as [A1 A2]. rewrite A1. unfold attach_ok. rewrite A2. reflexivity.
Qed.

Lemma compress_loop_agree fuel : forall st c c' name parent poff hash, agree st c c' ->
  compress_loop fuel st c name parent poff hash = compress_loop fuel st c' name parent poff hash.
Proof.
  induction fuel as [|fuel IH]; intros st c c' name parent poff hash A; [reflexivity|].
  cbn [compress_loop]. destruct name as [|x nm]; [reflexivity|].
  rewrite (lookup_agree 32 0 st c c' _ _ _ _ A). pose proof A as [AL A'].
  destruct (lookup_from 32 0 st c' (x :: nm) parent poff hash) as [|i rest h p|s]; try reflexivity.
  destruct (cn_range_check && cmp_ge cn_range_ge (p + cn_range_add) cn_range_bound); [reflexivity|].
  rewrite AL. apply IH. split; [exact AL|]. destruct (cmp_lt _ _ _); exact A'.
Qed.

Theorem compress_name_agree st c c' w : agree st c c' -> compress_name st c w = compress_name st c' w.
Proof.
  intros A. unfold compress_name. destruct (firstn (length w - 1) w) as [|x nm]; [reflexivity|].
  destruct (last_label (x :: nm)); cbn [bind]; try reflexivity.
  rewrite (compress_loop_agree _ st c c' _ _ _ _ A). destruct A as [AL _]. rewrite AL. reflexivity.
Qed.

(* ---- octets outside every extent may be rewritten ---- *)
Lemma slice_opt_before A X Y B a k : length X = length Y -> a + k <= len A ->
  slice_opt (A ++ X ++ B) a k = slice_opt (A ++ Y ++ B) a k.
Proof.
  intros HXY H. unfold slice_opt.
  replace (len (A ++ Y ++ B)) with (len (A ++ X ++ B)) by (unfold len; rewrite !app_length; lia).
  destruct (N.ltb_spec (len (A ++ X ++ B)) (a + k)); [reflexivity|]. f_equal.
  rewrite !skipn_app, !firstn_app, !skipn_length. unfold len in H.
  replace (N.to_nat k - (length A - N.to_nat a))%nat with 0%nat by lia. reflexivity.
Qed.

Lemma skipn_past {T} (P Q : list T) n : (length P <= n)%nat -> skipn n (P ++ Q) = skipn (n - length P) Q.
Proof. intros H. rewrite skipn_app, skipn_all2 by exact H. reflexivity. Qed.

Lemma slice_opt_after A X Y B a k : length X = length Y -> len A + len X <= a ->
  slice_opt (A ++ X ++ B) a k = slice_opt (A ++ Y ++ B) a k.
Proof.
  intros HXY H. unfold slice_opt.
  replace (len (A ++ Y ++ B)) with (len (A ++ X ++ B)) by (unfold len; rewrite !app_length; lia).
  destruct (N.ltb_spec (len (A ++ X ++ B)) (a + k)); [reflexivity|]. do 2 f_equal.
  unfold len in H. rewrite !skipn_past by lia. rewrite HXY. reflexivity.
Qed.

(* the size prefix (or any other octets) X at [|A|, |A|+|X|) is replaced by Y:
   if no used slot (its octets and the two octets behind them) meets that
   range, compress_name returns the same result and the same state *)
Theorem patch_invariant st A X Y B w : length X = length Y ->
  (forall i, nth i (cs_len st) 0 <> 0 ->
     nth i (cs_pos st) 0 + nth i (cs_len st) 0 + 2 <= len A \/ len A + len X <= nth i (cs_pos st) 0) ->
  compress_name st (A ++ X ++ B) w = compress_name st (A ++ Y ++ B) w.
Proof.
  intros HXY HD. apply compress_name_agree. split; [unfold len; rewrite !app_length; lia|].
  intros i Hz. destruct (HD i Hz) as [H|H].
  - split; apply slice_opt_before; auto; lia.
  - split; apply slice_opt_after; auto; lia.
Qed.

(* when the builder reserves the size prefix at the end of the contents written
   so far, every used slot already ends in front of it (exact extents); slots
   registered later start behind it (registration writes pos = len contents) *)
Theorem reserved_after_extents st c i : Inv st c -> nth i (cs_len st) 0 <> 0 -> ext_end st i <= len c.
Proof. apply Inv_extent. Qed.
