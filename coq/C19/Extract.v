From Coq Require Import Extraction ExtrOcamlBasic NArith.
From DV Require Import Base.Outcome Base.PName C19.Gen C19.Model C19.ModelCmp C19.ModelEdns C19.ModelMsg.
Extraction Language OCaml.
Extraction "../build/ml/C19/model.ml" c19_split c19_parse c19_rsplit c19_rparse c19_old c19_class c19_build c19_build_rev c19_question c19_record c19_edns c19_mparse c19_flat.
