(* C19 proofs, part 9: the EDNS record of the new API: build/split round trip,
   the old codec's view of the same octets (class = UDP size, TTL = ext rcode,
   version, flags), and the option framing against C05's model of the old
   Opt::from_octets + iteration. *)
From Coq Require Import NArith List Bool Lia ZArith.
From Coq Require Import ZifyN ZifyBool ZifyNat.
From DV Require Import Base.Outcome Base.Bytes Base.PName C19.Gen C19.Model C19.ModelEdns C05.Schema C05.OptModel.
Import ListNotations.
Local Open Scope N_scope.
Ltac Zify.zify_post_hook ::= Z.div_mod_to_equations.

Lemma take_k_app k a r : length a = k -> take_k k (a ++ r) = Some (a, r).
Proof.
  intros <-. unfold take_k. destruct (Nat.ltb_spec (length (a ++ r)) (length a)) as [H|H].
  - rewrite app_length in H. lia.
  - change (firstn (length a) (a ++ r)) with (take (length a) (a ++ r)).
    change (skipn (length a) (a ++ r)) with (drop (length a) (a ++ r)).
    rewrite take_app_length, drop_app_length. reflexivity.
Qed.

Lemma take_k_1 {a} r : take_k 1 (a :: r) = Some ([a], r).
Proof. reflexivity. Qed.
Lemma take_k_2 {a b} r : take_k 2 (a :: b :: r) = Some ([a; b], r).
Proof. reflexivity. Qed.
Lemma take_k_3 {a b c} r : take_k 3 (a :: b :: c :: r) = Some ([a; b; c], r).
Proof. reflexivity. Qed.

Definition edns_ok (e : edns) : Prop :=
  e_udp e < 65536 /\ e_ext e < 256 /\ e_ver e < 256 /\ e_flags e < 65536 /\ nopt_ok (e_data e) = true.

(* what is built is read back, whatever follows *)
Theorem edns_roundtrip e b rest : edns_ok e -> nedns_build e = Some b ->
  nedns_split (b ++ rest) = Ok (e, rest).
Proof.
  intros (H1 & H2 & H3 & H4 & H5) B. unfold nedns_build in B.
  destruct (N.ltb_spec 65535 (len (e_data e))) as [|Hl]; [discriminate B|]. injection B as Eb. subst b.
  change edns_prefix with [0; 0; 41]. change edns_ext_before_version with true. cbv iota.
  unfold nedns_split. change edns_prefix with [0; 0; 41]. change edns_ext_before_version with true.
  cbn [app]. rewrite take_k_3.
  cbn [combine forallb fst snd N.eqb Pos.eqb andb negb].
  unfold edns_fields. rewrite take_k_2, take_k_1, take_k_1, take_k_2, take_k_2.
  assert (Hsz : be_val [len (e_data e) / 256; len (e_data e) mod 256] = len (e_data e)) by (cbn; lia).
  rewrite Hsz. rewrite (take_k_app (N.to_nat (len (e_data e))) (e_data e)) by (unfold len; lia).
  rewrite H5. destruct e as [u x v f d]; cbn [e_udp e_ext e_ver e_flags e_data] in *.
  do 2 f_equal. f_equal; cbn; lia.
Qed.

(* the old codec reads the same octets as an ordinary record: CLASS = UDP size,
   TTL = ext_rcode << 24 | version << 16 | flags (OptRecord::from_record) *)
Theorem edns_old_view e b : edns_ok e -> nedns_build e = Some b ->
  firstn 3 b = [0; 0; 41] /\
  be_val (firstn 2 (skipn 3 b)) = e_udp e /\
  let ttl := be_val (firstn 4 (skipn 5 b)) in
  N.shiftr ttl old_opt_ext_shift mod 256 = e_ext e /\
  N.shiftr ttl old_opt_ver_shift mod 256 = e_ver e /\
  ttl mod 65536 = e_flags e /\
  be_val (firstn 2 (skipn 9 b)) = len (e_data e) /\ skipn 11 b = e_data e.
Proof.
  intros (H1 & H2 & H3 & H4 & H5) B. unfold nedns_build in B.
  destruct (N.ltb_spec 65535 (len (e_data e))) as [|Hl]; [discriminate B|]. injection B as Eb. subst b.
  change edns_prefix with [0; 0; 41]. change edns_ext_before_version with true. cbv iota.
  change old_opt_ext_shift with 24. change old_opt_ver_shift with 16.
  cbn [app firstn skipn be_val fold_left]. rewrite !N.shiftr_div_pow2.
  change (2 ^ 24) with 16777216. change (2 ^ 16) with 65536.
  repeat split; lia.
Qed.

(* ---- option framing: new Opt::parse_bytes_by_ref = old Opt::from_octets + iteration ---- *)
Lemma framing_step fuel : forall b pos acc, pos <= len b ->
  nopt_walk fuel b pos = is_ok (opt_iter fuel b pos (len b) acc).
Proof.
  induction fuel as [|fuel IH]; intros b pos acc Hp; [reflexivity|].
  cbn [nopt_walk opt_iter].
  destruct (N.leb_spec (len b) pos) as [H0|H0].
  - replace (len b - pos) with 0 by lia. reflexivity.
  - destruct (N.eqb_spec (len b - pos) 0); [lia|].
    unfold rd at 1. destruct (N.ltb_spec (len b - pos) 2) as [H1|H1].
    + cbn [bind is_ok]. destruct (N.ltb_spec (len b) (pos + 2 + 2)); [reflexivity|lia].
    + cbn [bind snd fst]. unfold rd at 1. destruct (N.ltb_spec (len b - (pos + 2)) 2) as [H2|H2].
      * cbn [bind is_ok]. destruct (N.ltb_spec (len b) (pos + 2 + 2)); [reflexivity|lia].
      * cbn [bind snd fst]. destruct (N.ltb_spec (len b) (pos + 2 + 2)); [lia|].
        assert (Es : of_be (slice b (pos + 2) (pos + 2 + 2)) = be_val (firstn 2 (skipn (N.to_nat (pos + 2)) b))).
        { unfold of_be, be_val, slice. replace (N.to_nat (pos + 2 + 2 - (pos + 2))) with 2%nat by lia. reflexivity. }
        rewrite Es. set (size := be_val (firstn 2 (skipn (N.to_nat (pos + 2)) b))).
        unfold rd. destruct (N.ltb_spec (len b - (pos + 2 + 2)) size) as [H3|H3].
        -- cbn [bind is_ok]. destruct (N.ltb_spec (len b) (pos + 2 + 2 + size)); [reflexivity|lia].
        -- cbn [bind snd fst]. destruct (N.ltb_spec (len b) (pos + 2 + 2 + size)); [lia|].
           apply IH. lia.
Qed.

Theorem edns_framing_agrees b : nopt_ok b = is_ok (opt_parse b).
Proof.
  unfold nopt_ok, opt_parse. change edns_opt_max with 65535.
  destruct (N.ltb_spec 65535 (len b)); [reflexivity|]. apply framing_step. lia.
Qed.

Example edns_example :
  let e := mkE 1232 1 0 32768 [0;10;0;8;6;148;57;104;176;18;234;57] in
  edns_ok e /\ nedns_build e = Some ([0;0;41;4;208;1;0;128;0;0;12] ++ e_data e) /\
  nedns_split [0;0;41;4;208;1;0;128;0;0;3;0;10;0] = Err E_PARSE.
Proof. unfold edns_ok. cbn. repeat split; vm_compute; auto; try discriminate. Qed.
