(* C19 model, part 1: the NEW name decoders
     new/base/name/absolute.rs  parse_segment, NameBuf::append_bytes,
                                NameBuf::{split,parse}_message_bytes
     new/base/name/reversed.rs  parse_segment, RevNameBuf::prepend_bytes,
                                RevNameBuf::{split,parse}_message_bytes
   `contents` is the message WITHOUT its 12-octet header; `start` and the
   returned end are offsets into contents; a compression pointer counts from
   the start of the header (hence `checked_sub(12)`).
   Slices `&[u8]` are list suffixes; NameBuf {size, buffer} is the list of the
   first `size` octets (size = length).  The old reader is Base/PName.v.
   Part 2: the known-class classifier (an instrumented copy of the old walk).
   The compressor is in C19/ModelCmp.v. *)
From Coq Require Import NArith List Bool.
From DV Require Import Base.Outcome Base.Bytes Base.Names Base.PName C19.Gen.
Import ListNotations.
Local Open Scope N_scope.

(* the only error of the new API: ParseError *)
Definition E_PARSE : N := 1.
(* panic sites *)
Definition PN_APPEND : N := 20.   (* append_bytes: buffer[size..][..n] out of range / size += n overflows u8 *)
Definition PN_PREPEND : N := 21.  (* prepend_bytes: offset -= n underflows u8 *)
Definition PN_END : N := 22.      (* contents.len() - rest.len() underflows *)
Definition PN_CAP : N := 23.      (* 255 - buffer.size underflows u8 / 2 + l overflows u8 *)

Definition cmp_lt (strict : bool) (a b : N) : bool := if strict then a <? b else a <=? b.
Definition cmp_ge (ge : bool) (a b : N) : bool := if ge then b <=? a else b <? a.

(* ---- NameBuf ---- *)
Definition nb_append (buf bs : bytes) : outcome bytes :=
  if 255 <? len buf + len bs then Panic PN_APPEND else Ok (buf ++ bs).

(* parse_segment: the match arms in source order *)
Fixpoint nb_segment (fuel : nat) (bs : bytes) (buf : bytes)
  : outcome (option N * bytes * bytes) :=
  match fuel with
  | O => OutOfFuel
  | S fuel' =>
      match bs with
      | [] => Err E_PARSE
      | b :: rest =>
          if b =? 0 then
            do buf' <- nb_append buf [0]; Ok (None, rest, buf')
          else if cmp_lt nb_label_bound_strict b nb_label_bound then
            if cmp_lt nb_short_strict (len bs) (nb_short_add + b) then Err E_PARSE
            else if nb_cap_total <? len buf then Panic PN_CAP
            else if cmp_lt nb_cap_strict (nb_cap_total - len buf) (nb_cap_slack + b) then Err E_PARSE
            else
              let k := N.to_nat (1 + b) in
              do buf' <- nb_append buf (firstn k bs);
              nb_segment fuel' (skipn k bs) buf'
          else
            match rest with
            | lo :: rest' =>
                if cmp_ge nb_ptr_tag_ge b nb_ptr_tag
                then Ok (Some (N.land (b * 256 + lo) nb_ptr_mask), rest', buf)
                else Err E_PARSE
            | [] => Err E_PARSE
            end
      end
  end.

(* contents.get(start..): None iff start > len *)
Definition get_from (c : bytes) (start : N) : option bytes :=
  if len c <? start then None else Some (skipn (N.to_nat start) c).

(* the `while let Some(start) = pointer` loop *)
Fixpoint nb_follow (fuel : nat) (hdr : N) (rule_ge : bool) (c : bytes)
         (ptr : option N) (old_start : N) (buf : bytes) : outcome bytes :=
  match ptr with
  | None => Ok buf
  | Some p =>
      match fuel with
      | O => OutOfFuel
      | S fuel' =>
          if p <? hdr then Err E_PARSE                       (* checked_sub *)
          else
            let start := p - hdr in
            if cmp_ge rule_ge start old_start then Err E_PARSE
            else
              match get_from c start with
              | None => Err E_PARSE
              | Some bs =>
                  do r <- nb_segment (S (length bs)) bs buf;
                  let '(ptr', _, buf') := r in
                  nb_follow fuel' hdr rule_ge c ptr' start buf'
              end
      end
  end.

Definition follow_fuel (start : N) : nat := S (N.to_nat start).

Definition new_split (c : bytes) (start : N) : outcome (bytes * N) :=
  match get_from c start with
  | None => Err E_PARSE
  | Some bs =>
      do r <- nb_segment (S (length bs)) bs [];
      let '(ptr, rest, buf) := r in
      if len c <? len rest then Panic PN_END else
      let orig_end := len c - len rest in
      do buf' <- nb_follow (follow_fuel start) nb_split_hdr nb_split_rule_ge c ptr start buf;
      Ok (buf', orig_end)
  end.

Definition new_parse (c : bytes) (start : N) : outcome bytes :=
  match get_from c start with
  | None => Err E_PARSE
  | Some bs =>
      do r <- nb_segment (S (length bs)) bs [];
      let '(ptr, rest, buf) := r in
      match rest with
      | _ :: _ => Err E_PARSE
      | [] => nb_follow (follow_fuel start) nb_parse_hdr nb_parse_rule_ge c ptr start buf
      end
  end.

(* ---- RevNameBuf: {offset, buffer}; the name is buffer[offset..], modelled
   as the list of those octets; offset = rb_empty_offset - length *)
Definition rb_prepend (buf bs : bytes) : outcome bytes :=
  if rb_empty_offset - len buf <? len bs then Panic PN_PREPEND else Ok (bs ++ buf).

Fixpoint rb_segment (fuel : nat) (bs : bytes) (buf : bytes)
  : outcome (option N * bytes * bytes) :=
  match fuel with
  | O => OutOfFuel
  | S fuel' =>
      match bs with
      | [] => Err E_PARSE
      | b :: rest =>
          if b =? 0 then
            do buf' <- rb_prepend buf [0]; Ok (None, rest, buf')
          else if cmp_lt rb_label_bound_strict b rb_label_bound then
            if cmp_lt rb_short_strict (len bs) (rb_short_add + b) then Err E_PARSE
            else if cmp_lt rb_cap_strict (rb_empty_offset - len buf) (rb_cap_slack + b) then Err E_PARSE
            else
              let k := N.to_nat (1 + b) in
              do buf' <- rb_prepend buf (firstn k bs);
              rb_segment fuel' (skipn k bs) buf'
          else
            match rest with
            | lo :: rest' =>
                if cmp_ge rb_ptr_tag_ge b rb_ptr_tag
                then Ok (Some (N.land (b * 256 + lo) rb_ptr_mask), rest', buf)
                else Err E_PARSE
            | [] => Err E_PARSE
            end
      end
  end.

Fixpoint rb_follow (fuel : nat) (hdr : N) (rule_ge : bool) (c : bytes)
         (ptr : option N) (old_start : N) (buf : bytes) : outcome bytes :=
  match ptr with
  | None => Ok buf
  | Some p =>
      match fuel with
      | O => OutOfFuel
      | S fuel' =>
          if p <? hdr then Err E_PARSE
          else
            let start := p - hdr in
            if cmp_ge rule_ge start old_start then Err E_PARSE
            else
              match get_from c start with
              | None => Err E_PARSE
              | Some bs =>
                  do r <- rb_segment (S (length bs)) bs buf;
                  let '(ptr', _, buf') := r in
                  rb_follow fuel' hdr rule_ge c ptr' start buf'
              end
      end
  end.

Definition rev_split (c : bytes) (start : N) : outcome (bytes * N) :=
  match get_from c start with
  | None => Err E_PARSE
  | Some bs =>
      do r <- rb_segment (S (length bs)) bs [];
      let '(ptr, rest, buf) := r in
      if len c <? len rest then Panic PN_END else
      let orig_end := len c - len rest in
      do buf' <- rb_follow (follow_fuel start) rb_split_hdr rb_split_rule_ge c ptr start buf;
      Ok (buf', orig_end)
  end.

Definition rev_parse (c : bytes) (start : N) : outcome bytes :=
  match get_from c start with
  | None => Err E_PARSE
  | Some bs =>
      do r <- rb_segment (S (length bs)) bs [];
      let '(ptr, rest, buf) := r in
      match rest with
      | _ :: _ => Err E_PARSE
      | [] => rb_follow (follow_fuel start) rb_parse_hdr rb_parse_rule_ge c ptr start buf
      end
  end.

(* ---- Part 2: the known classes.  An instrumented copy of the OLD walk
   (PName.hops / PName.parse_labels, same recursion and fuel) that tracks the
   start `seg` of the segment being read and reports the first pointer that the
   old rule (target < position of the pointer) admits but that
     - points into the 12-octet header            -> KHeader
     - points at or after the start of its own segment -> KOwnSeg
   Everything else (including every way the old walk fails) is KNone. *)
Inductive kres := KNone | KOwnSeg | KHeader.

Definition HDR : N := 12.

Fixpoint k_hops (fuel : nat) (m : bytes) (lim seg ptr after : N) : kres :=
  match fuel with
  | O => KNone
  | S fuel' =>
      if after - 2 <=? ptr then KNone
      else if ptr <? HDR then KHeader
      else if seg <=? ptr then KOwnSeg
      else if lim <? ptr then KNone
      else
        match label_type_parse m ptr lim with
        | Ok (LCompressed ptr2, after2) => k_hops fuel' m lim ptr ptr2 after2
        | _ => KNone
        end
  end.

Fixpoint k_labels (fuel : nat) (m : bytes) (lim cur seg name_len : N) : kres :=
  match fuel with
  | O => KNone
  | S fuel' =>
      match label_type_parse m cur lim with
      | Ok (LNormal l, cur') =>
          if l =? 0 then KNone
          else if lim - cur' <? l then KNone
          else
            let nl := name_len + l + 1 in
            if 255 <=? nl then KNone
            else k_labels fuel' m lim (cur' + l) seg nl
      | Ok (LCompressed ptr, cur') =>
          match k_hops (S (S (N.to_nat ptr))) m lim seg ptr cur' with
          | KNone =>
              match hops (S (S (N.to_nat ptr))) m lim ptr cur' with
              | Ok target => k_labels fuel' m lim target target name_len
              | _ => KNone
              end
          | k => k
          end
      | _ => KNone
      end
  end.

Definition kclass (m : bytes) (pos : N) : kres :=
  k_labels PARSE_FUEL m (mlen m) pos pos 0.

Definition PtrIntoOwnSegment (m : bytes) (pos : N) : Prop := kclass m pos = KOwnSeg.
Definition PtrIntoHeader (m : bytes) (pos : N) : Prop := kclass m pos = KHeader.

(* ---- entry points for the correspondence driver ---- *)
Definition c19_split (c : bytes) (start : N) := new_split c start.
Definition c19_parse (c : bytes) (start : N) := new_parse c start.
Definition c19_rsplit (c : bytes) (start : N) := rev_split c start.
Definition c19_rparse (c : bytes) (start : N) := rev_parse c start.
Definition c19_old (m : bytes) (pos : N) : outcome (name * N) := decode_name m pos (mlen m).
Definition c19_class (m : bytes) (pos : N) : kres := kclass m pos.

(* ---- Part 3: questions and (untyped) records of the new API ----
   new/base/question.rs Question::split_message_bytes, new/base/record.rs
   Record::split_message_bytes with D = &UnparsedRecordData,
   new/base/parse/mod.rs split_without_compression over U16 / U32 fields. *)
Definition PN_SLICE : N := 24.   (* &contents[start..] with start > len *)

Definition nfield (k : nat) (c : bytes) (start : N) : outcome (bytes * N) :=
  if len c <? start then Panic PN_SLICE else
  let bs := firstn k (skipn (N.to_nat start) c) in
  if Nat.ltb (length bs) k then Err E_PARSE else Ok (bs, start + N.of_nat k).
Definition be_val (l : bytes) : N := fold_left (fun acc b => acc * 256 + b) l 0.
Definition nu16 (c : bytes) (start : N) : outcome (N * N) :=
  do r <- nfield 2 c start; Ok (be_val (fst r), snd r).
Definition nu32 (c : bytes) (start : N) : outcome (N * N) :=
  do r <- nfield 4 c start; Ok (be_val (fst r), snd r).

(* (qname wire, qtype, qclass, end) *)
Definition new_question (c : bytes) (start : N) : outcome (bytes * N * N * N) :=
  do r <- new_split c start;
  do ty <- nu16 c (snd r);
  do cl <- nu16 c (snd ty);
  Ok (fst r, fst ty, fst cl, snd cl).

(* (rname wire, rtype, rclass, ttl, start of RDATA, end) *)
Definition new_record (c : bytes) (start : N) : outcome (bytes * N * N * N * N * N) :=
  do r <- new_split c start;
  do ty <- nu16 c (snd r);
  do cl <- nu16 c (snd ty);
  do ttl <- nu32 c (snd cl);
  do sz <- nu16 c (snd ttl);
  let rest := snd sz + fst sz in
  if len c <? rest then Err E_PARSE                  (* contents.get(..rest) *)
  else if 65535 <? fst sz then Err E_PARSE           (* UnparsedRecordData: at most 65535 octets *)
  else Ok (fst r, fst ty, fst cl, fst ttl, snd sz, rest).

Definition c19_question (c : bytes) (start : N) := new_question c start.
Definition c19_record (c : bytes) (start : N) := new_record c start.

(* ---- Part 4: the uncompressed name parser ----
   new/base/name/absolute.rs  Name::split_bytes_by_ref (what <&Name>::split_bytes /
   parse_bytes and NameBuf::split_bytes / parse_bytes delegate to) *)
Fixpoint flat_walk (fuel : nat) (b : bytes) (offset : N) : outcome (bytes * bytes) :=
  match fuel with
  | O => OutOfFuel
  | S f =>
      if cmp_lt name_flat_strict offset name_flat_bound then
        match get_from b offset with
        | None => Err E_PARSE
        | Some [] => Err E_PARSE
        | Some (l :: rest) =>
            if l =? 0 then Ok (firstn (N.to_nat (offset + 1)) b, skipn (N.to_nat (offset + 1)) b)
            else if (l <=? 63) && (l <=? len rest) then flat_walk f b (offset + 1 + l)
            else Err E_PARSE
        end
      else Err E_PARSE
  end.
Definition flat_split (b : bytes) : outcome (bytes * bytes) := flat_walk 256 b 0.
Definition c19_flat (b : bytes) := flat_split b.
